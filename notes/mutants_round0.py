"""Round-0 screening of candidate mutants (exploratory note, not machinery).

Each mutant is one textual replacement on top of the *repaired* tree (pinned tree +
notes/candidate_fixes.diff).  The screening applies each to its own scratch copy outside /repo and
/verif, runs the pinned test-suite, and prints which ones the 108 tests let through.  Those are the
"realistic changes that still pass the existing tests" the checks must catch.

usage: python mutants_round0.py <patched-base-dir> <scratch-root> [jobs]
"""
import os
import shutil
import subprocess
import sys
from concurrent.futures import ThreadPoolExecutor

TC = 'py_ballisticcalc/trajectory_calc/_trajectory_calc.py'
CO = 'py_ballisticcalc/conditions.py'
UN = 'py_ballisticcalc/unit.py'
DM = 'py_ballisticcalc/drag_model.py'
DT = 'py_ballisticcalc/drag_tables.py'
MU = 'py_ballisticcalc/munition.py'
TD = 'py_ballisticcalc/trajectory_data/_trajectory_data.py'
HE = 'py_ballisticcalc/helpers.py'
IF = 'py_ballisticcalc/interface.py'
IC = 'py_ballisticcalc/interface_config.py'

# (name, property it should break, file, old, new)
MUTANTS = [
    # C01
    ('c01_wind_never_switches', 'C01,C12', TC, "            if range_vector.x >= wind_sock.next_range:  # require", "            if False and range_vector.x >= wind_sock.next_range:  # require"),
    ('c01_drag_on_ground_speed', 'C01', TC, "            velocity = velocity_adjusted.magnitude()  # Velocity relative to air", "            velocity = velocity_vector.magnitude()  # Velocity relative to air"),
    ('c01_density_frozen', 'C01', TC, "                self.alt0 + range_vector.y)\n\n            # region Check whether", "                self.alt0)\n\n            # region Check whether"),
    ('c01_cant_sign', 'C01', TC, "range_vector = Vector(.0, -self.cant_cosine * self.sight_height, -self.cant_sine * self.sight_height)", "range_vector = Vector(.0, -self.cant_cosine * self.sight_height, self.cant_sine * self.sight_height)"),
    ('c01_azimuth_dropped', 'C01', TC, "            math.cos(self.barrel_elevation) * math.sin(self.barrel_azimuth)\n", "            0.0 * math.sin(self.barrel_azimuth)\n"),
    ('c01_gravity_half', 'C01', TC, "            velocity_vector -= (velocity_adjusted * drag - self.gravity_vector) * delta_time", "            velocity_vector -= (velocity_adjusted * drag - self.gravity_vector * 0.98) * delta_time"),
    # C02
    ('c02_divide_by_look_distance', 'C02', TC, "(height - height_at_zero) / zero_distance * math.cos", "(height - height_at_zero) / distance_feet * 0.2 * math.cos"),
    ('c02_accuracy_ignored', 'C02', TC, "        _cZeroFindingAccuracy = self._config.cZeroFindingAccuracy\n", "        _cZeroFindingAccuracy = self._config.cZeroFindingAccuracy * 20000\n"),
    ('c02_sight_line_sin', 'C02', TC, "zero_distance) * math.tan(self.look_angle)", "zero_distance) * math.sin(self.look_angle)"),
    ('c02_zero_stored_on_error', 'C02', TC, "            raise ZeroFindingError(zero_finding_error, iterations_count, Angular.Radian(self.barrel_elevation))", "            shot_info.weapon.zero_elevation = Angular.Radian(self.barrel_elevation - self.look_angle)\n            raise ZeroFindingError(zero_finding_error, iterations_count, Angular.Radian(self.barrel_elevation))"),
    # C03
    ('c03_min_step_dropped', 'C03', TC, "        while (range_vector.x <= maximum_range + min_step\n", "        while (range_vector.x <= maximum_range\n"),
    ('c03_pending_guard_removed', 'C03', TC, "data_filter.next_record_distance <= maximum_range + min_step)):", "False)):"),
    ('c03_ratio_current_point', 'C03,C11', TC, "ratio = (self.next_record_distance - self.previous_position.x) / (position.x - self.previous_position.x)", "ratio = (self.next_record_distance - self.previous_position.x) / (position.x - self.previous_position.x) * 0.5"),
    ('c03_default_step_11', 'C03', IF, "trajectory_step = trajectory_range.raw_value / 10.0", "trajectory_step = trajectory_range.raw_value / 11.0"),
    # C04
    ('c04_reason_precedence', 'C04', TC, "                if velocity < _cMinimumVelocity:\n                    reason = RangeError.MinimumVelocityReached\n                elif range_vector.y < _cMaximumDrop:", "                if range_vector.y < _cMaximumDrop and velocity >= 0:\n                    reason = RangeError.MaximumDropReached\n                elif velocity < _cMinimumVelocity:\n                    reason = RangeError.MinimumVelocityReached\n                elif range_vector.y < _cMaximumDrop:"),
    ('c04_limit_from_constant', 'C04,C18', TC, "        _cMinimumVelocity = self._config.cMinimumVelocity\n", "        _cMinimumVelocity = max(self._config.cMinimumVelocity, 50.0)\n"),
    ('c04_altitude_ignores_station', 'C04', TC, "                    or self.alt0 + range_vector.y < _cMinimumAltitude\n", "                    or range_vector.y < _cMinimumAltitude\n"),
    # C05
    ('c05_target_drop_no_cos', 'C05', TC, "target_drop=_new_feet((range_vector.y - range_vector.x * math.tan(look_angle)) * math.cos(look_angle)),", "target_drop=_new_feet((range_vector.y - range_vector.x * math.tan(look_angle))),"),
    ('c05_drop_adj_no_look', 'C05', TC, "drop_adj=_new_rad(drop_adjustment - (look_angle if range_vector.x else 0)),", "drop_adj=_new_rad(drop_adjustment - (look_angle if range_vector.x else 0) * 0.5),"),
    ('c05_energy_const', 'C05', TC, "return bullet_weight * math.pow(velocity, 2) / 450400", "return bullet_weight * math.pow(velocity, 2) / 450436"),
    ('c05_spin_sign_abs', 'C05', TC, "            sign = 1 if self.twist > 0 else -1", "            sign = 1"),
    ('c05_sg_no_atmo', 'C05', TC, "            return sd * fv * ftp", "            return sd * fv"),
    ('c05_look_distance', 'C05', TC, "look_distance=_new_feet(range_vector.x / math.cos(look_angle)),", "look_distance=_new_feet(range_vector.x * math.cos(look_angle)),"),
    # C06
    ('c06_nautical_mile', 'C06', UN, "            result = value * 72913.3858\n", "            result = value * 72913.38\n"),
    ('c06_iphy_linear', 'C06', UN, "            result = atan(value / 3600)", "            result = value / 3600"),
    ('c06_rankine', 'C06', UN, "            result = value - 459.67", "            result = value - 460"),
    ('c06_psi', 'C06', UN, "            result = value * 51.714924102396", "            result = value * 51.7149"),
    # C07
    ('c07_default_step_preferred', 'C07', IF, "            step: Distance = Distance.Inch(trajectory_step)", "            step: Distance = PreferredUnits.distance(trajectory_step / 36.0)"),
    ('c07_twist_or_one', 'C07', MU, "        self.twist = PreferredUnits.twist(twist or 0)", "        self.twist = PreferredUnits.twist(twist or 0) if twist is not None else PreferredUnits.twist(0)"),
    ('c07_danger_height_display', 'C07', TD, "        target_height_half = target_height.raw_value / 2.0", "        target_height_half = (target_height >> PreferredUnits.drop) / 2.0 * (1 if PreferredUnits.drop == Unit.Inch else 1.0000001)"),
    ('c07_temp_or_default', 'C07', CO, "Atmo.standard_temperature(self.altitude) if temperature is None else temperature)", "temperature or Atmo.standard_temperature(self.altitude))"),
    # C08
    ('c08_lapse', 'C08', 'py_ballisticcalc/constants.py', "cLapseRateKperFoot: Final[float] = -0.0019812", "cLapseRateKperFoot: Final[float] = -0.0019182"),
    ('c08_shortcut_300', 'C08', CO, "        if math.fabs(self._a0 - altitude) < 30:", "        if math.fabs(self._a0 - altitude) < 300:"),
    ('c08_humidity_ge', 'C08', CO, "        if value > 1:\n            value = value / 100.0", "        if value >= 1:\n            value = value / 100.0"),
    ('c08_density_delta_inverted', 'C08', CO, "            density_delta = ((self._t0 + cDegreesCtoK) * p) / (self._p0 * t)", "            density_delta = (t * p) / (self._p0 * (self._t0 + cDegreesCtoK))"),
    # C09
    ('c09_mhi', 'C09', TC, "    mhi = num_points - 2\n\n    while mhi - mlo > 1:\n        mid = (mhi + mlo) // 2", "    mhi = num_points - 1\n\n    while mhi - mlo > 1:\n        mid = (mhi + mlo) // 2"),
    ('c09_nearest_flipped', 'C09', TC, "    if mach_list[mhi] - mach > mach - mach_list[mlo]:\n        m = mlo\n    else:\n        m = mhi\n    curve_m = curve[m]\n    return", "    if mach_list[mhi] - mach > mach - mach_list[mlo]:\n        m = mhi\n    else:\n        m = mlo\n    curve_m = curve[m]\n    return"),
    ('c09_constant', 'C09', TC, "        return cd * 2.08551e-04 / self._bc", "        return cd * 2.08851e-04 / self._bc"),
    ('c09_table_entry', 'C09', DT, "{'Mach': 1.00, 'CD': 0.3803}", "{'Mach': 1.00, 'CD': 0.3808}"),
    # C10
    ('c10_winds_sorted_in_place', 'C10', CO, "        return tuple(sorted(self._winds, key=lambda wind: wind.until_distance.raw_value))", "        self._winds.sort(key=lambda wind: wind.until_distance.raw_value)\n        return tuple(self._winds)"),
    ('c10_curve_cache', 'C10', TC, "        self._curve: List[CurvePoint] = calculate_curve(self._table_data)\n", "        if not hasattr(self, '_curve') or len(self._curve) != len(self._table_data):\n            self._curve: List[CurvePoint] = calculate_curve(self._table_data)\n"),
    ('c10_elevation_kept', 'C10', TC, "        self.barrel_elevation = shot_info.barrel_elevation >> Angular.Radian\n", "        if getattr(self, '_last_shot', None) is not shot_info:\n            self.barrel_elevation = shot_info.barrel_elevation >> Angular.Radian\n        self._last_shot = shot_info\n"),
    # C11
    ('c11_step_from_record', 'C11', TC, "        min_step = min(self.calc_step, record_step)\n", "        min_step = min(self.calc_step, record_step)\n        self.calc_step = self.get_calc_step(record_step if record_step > 0 else 0)\n"),
    # C12
    ('c12_last_wind_persists', 'C12,C01', TC, "            if self.current >= self._length:\n                self._last_vector_cache = Vector(0.0, 0.0, 0.0)", "            if self.current >= self._length:\n                self.current = self._length - 1\n                pass"),
    ('c12_cross_swapped', 'C12,C01', CO, "        cross_component = wind_velocity_fps * math.sin(wind_direction_rad)", "        cross_component = -wind_velocity_fps * math.sin(wind_direction_rad)"),
    ('c12_no_sort', 'C12', CO, "        return tuple(sorted(self._winds, key=lambda wind: wind.until_distance.raw_value))", "        return tuple(self._winds)"),
    # C13
    ('c13_lt_unit_value', 'C13', UN, "    def __lt__(self, other):\n        return float(self) < other", "    def __lt__(self, other):\n        return self.unit_value < other"),
    ('c13_hash_units', 'C13', UN, "        return hash(float(self._value))", "        return hash((float(self._value), self._defined_units))"),
    ('c13_validate_returns', 'C13', UN, "            raise UnitConversionError(f'{self.__class__.__name__}: unit {units} is not supported')", "            return value"),
    # C14
    ('c14_in_place', 'C14', DM, "    drag_table = [DragDataPoint(point.Mach, point.CD / bc_interp[i]) for i, point in enumerate(drag_table)]", "    for i, point in enumerate(drag_table):\n        point.CD = point.CD / bc_interp[i]"),
    ('c14_no_sort', 'C14', DM, "    bc_points.sort(key=lambda p: p.Mach)", "    pass"),
    ('c14_clamp_swapped', 'C14', DM, "        if xi <= xp[0]:\n            y.append(yp[0])\n        elif xi >= xp[-1]:\n            y.append(yp[-1])", "        if xi <= xp[0]:\n            y.append(yp[-1])\n        elif xi >= xp[-1]:\n            y.append(yp[0])"),
    # C15
    ('c15_seen_not_set', 'C15', TC, "                    self.current_flag |= TrajFlag.ZERO_DOWN\n                    self.seen_zero |= TrajFlag.ZERO_DOWN", "                    self.current_flag |= TrajFlag.ZERO_DOWN"),
    ('c15_mach_prev_stale', 'C15', TC, "        self.previous_v_mach = current_v_mach", "        self.previous_v_mach = max(self.previous_v_mach, current_v_mach)"),
    ('c15_no_tan', 'C15', TC, "            reference_height = range_vector.x * math.tan(self.look_angle)", "            reference_height = range_vector.x * self.look_angle"),
    # C16
    ('c16_signed', 'C16', TD, "                if abs(prime_row.target_drop.raw_value - center_row.target_drop.raw_value) >= target_height_half:", "                if (prime_row.target_drop.raw_value - center_row.target_drop.raw_value) >= target_height_half:"),
    ('c16_end_starts_at_center', 'C16', TD, "            for prime_row in self.trajectory[row_num + 1:]:", "            for prime_row in self.trajectory[row_num + 2:]:"),
    # C17
    ('c17_fifteen', 'C17', MU, "            muzzle_velocity = self.temp_modifier / (15 / v0) * t_delta + v0", "            muzzle_velocity = self.temp_modifier / (10 / v0) * t_delta + v0"),
    ('c17_lower_velocity', 'C17', MU, "        self.temp_modifier = v_delta / t_delta * (15 / v0)  # * 100", "        self.temp_modifier = v_delta / t_delta * (15 / min(v0, v1))  # * 100"),
    ('c17_air_temp', 'C17', TC, "        self.muzzle_velocity = shot_info.ammo.get_velocity_for_temp(shot_info.atmo.powder_temp) >> Velocity.FPS", "        self.muzzle_velocity = shot_info.ammo.get_velocity_for_temp(shot_info.atmo.temperature) >> Velocity.FPS"),
    # C18
    ('c18_step_global', 'C18', TC, "        preferred_step = self._config.max_calc_step_size_feet\n", "        from py_ballisticcalc import trajectory_calc as _tc\n        preferred_step = _tc._globalMaxCalcStepSizeFeet\n"),
    ('c18_gravity_default', 'C18', TC, "        self.gravity_vector: Vector = Vector(.0, self._config.cGravityConstant, .0)", "        self.gravity_vector: Vector = Vector(.0, -32.17405, .0)"),
    ('c18_radian_falsy', 'C18', UN, "        if (units := _parse_unit(alias)) is not None:", "        if units := _parse_unit(alias):"),
    ('c18_strip_removed', 'C18', UN, "    input_ = input_.strip().lower()", "    input_ = input_.lower()"),
    ('c18_alias_typo', 'C18', UN, "    ('knot', 'kn', 'kt'): Unit.KT,", "    ('knot', 'kn', 'kt'): Unit.KMH,"),
    # C19
    ('c19_swap', 'C19', MU, "        return SightReticleStep(_v_step, _h_step)", "        return SightReticleStep(_h_step, _v_step)"),
    ('c19_lwir_mult', 'C19', MU, "                windage_adj.raw_value / (self.h_click_size.raw_value / magnification)", "                windage_adj.raw_value / (self.h_click_size.raw_value * magnification)"),
    ('c19_ffp_h_uses_v', 'C19', MU, "                drop_adj.raw_value / self.v_click_size.raw_value,\n                windage_adj.raw_value / self.h_click_size.raw_value", "                drop_adj.raw_value / self.v_click_size.raw_value,\n                windage_adj.raw_value / self.v_click_size.raw_value"),
    # C20
    ('c20_bisect_right', 'C20', HE, "    idx = bisect.bisect_left(wrapper, True, 0, len(arr))", "    idx = bisect.bisect_right(wrapper, False, 0, len(arr))"),
    ('c20_tie_later', 'C20', HE, "    if pos == len(arr) or abs(value_getter(arr[before]) - target_value) <= abs(", "    if pos == len(arr) or abs(value_getter(arr[before]) - target_value) < abs("),
    ('c20_index_at_distance_gt', 'C20,C16', TD, "                     if self.trajectory[i].distance >= d), -1)", "                     if self.trajectory[i].distance > d), -1)"),
    # second batch (subtler variants of the ones the tests killed)
    ('c01_wind_switch_late', 'C01,C12', TC, "            if range_vector.x >= wind_sock.next_range:  # require", "            if range_vector.x >= wind_sock.next_range + 50:  # require"),
    ('c01_density_half_altitude', 'C01', TC, "                self.alt0 + range_vector.y)\n\n            # region Check whether", "                self.alt0 + range_vector.y * 0.5)\n\n            # region Check whether"),
    ('c01_elevation_ignores_relative_cant', 'C01', CO, "        return Angular.Radian((self.look_angle >> Angular.Radian)\n                              + math.cos(self.cant_angle >> Angular.Radian)", "        return Angular.Radian((self.look_angle >> Angular.Radian)\n                              + math.cos((self.cant_angle >> Angular.Radian) * 0.5)"),
    ('c08_vacuum_density_left', 'C08,C01', CO, "        self._density_ratio = 0\n\n    def update_density_ratio(self):\n        pass", "        self._density_ratio = 1e-3\n\n    def update_density_ratio(self):\n        pass"),
    ('c13_convert_lossy', 'C13', UN, "        self._defined_units = units\n        return self", "        self._value = self.to_raw(self.from_raw(self._value, units), units)\n        self._defined_units = units\n        return self"),
    ('c04_last_distance_stale', 'C04', 'py_ballisticcalc/exceptions/exceptions.py', "            self.last_distance = ranges[-1].distance", "            self.last_distance = ranges[max(0, len(ranges) - 2)].distance"),
    ('c11_time_step_interpolated_late', 'C11,C03', TC, "        if time > self.time_of_last_record + self.time_step:", "        if time > self.time_of_last_record + 3 * self.time_step:"),
    ('c16_half_height_full', 'C16', TD, "        target_height_half = target_height.raw_value / 2.0", "        target_height_half = target_height.raw_value / 1.0"),
    ('c02_zero_returns_without_check', 'C02', TC, "        if zero_finding_error > _cZeroFindingAccuracy:\n            # ZeroFindingError contains", "        if zero_finding_error > _cZeroFindingAccuracy * 1e6:\n            # ZeroFindingError contains"),
    ('c09_first_segment_slope', 'C09', TC, "    curve = [CurvePoint(0, rate, data_points[0].CD - data_points[0].Mach * rate)]", "    curve = [CurvePoint(0, rate * 0.5, data_points[0].CD - data_points[0].Mach * rate * 0.5)]"),
    ('c09_g7_entry', 'C09', DT, "{'Mach': 2.00, 'CD': 0.2980}", "{'Mach': 2.00, 'CD': 0.2985}"),
]


def screen(args):
    base, root, (name, props, path, old, new) = args
    dst = os.path.join(root, name)
    shutil.rmtree(dst, ignore_errors=True)
    shutil.copytree(base, dst, ignore=shutil.ignore_patterns('__pycache__', '.pytest_cache'))
    fp = os.path.join(dst, path)
    src = open(fp, encoding='utf-8').read()
    if src.count(old) != 1:
        shutil.rmtree(dst, ignore_errors=True)
        return name, props, f'NOT-APPLICABLE(count={src.count(old)})'
    open(fp, 'w', encoding='utf-8').write(src.replace(old, new))
    try:
        r = subprocess.run(['/venv/bin/python', '-B', '-m', 'pytest', '-q', '-x', '-p', 'no:cacheprovider', 'tests'],
                           cwd=dst, capture_output=True, text=True, timeout=900)
        tail = (r.stdout.strip().splitlines() or ['?'])[-1]
        verdict = 'SURVIVES-TESTS' if r.returncode == 0 else 'killed-by-tests'
    except subprocess.TimeoutExpired:
        tail, verdict = 'timeout', 'killed-by-tests(timeout)'
    shutil.rmtree(dst, ignore_errors=True)
    return name, props, f'{verdict}: {tail}'


if __name__ == '__main__':
    base, root = sys.argv[1], sys.argv[2]
    jobs = int(sys.argv[3]) if len(sys.argv) > 3 else 12
    os.makedirs(root, exist_ok=True)
    with ThreadPoolExecutor(jobs) as ex:
        for name, props, res in ex.map(screen, [(base, root, m) for m in MUTANTS]):
            print(f'{name:32s} {props:10s} {res}', flush=True)
