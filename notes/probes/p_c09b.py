import warnings, math, sys, random
warnings.simplefilter('ignore')
from py_ballisticcalc import *
rnd=random.Random(3)
calc=Calculator()
def lagr(pts, q):
    (x1,y1),(x2,y2),(x3,y3)=pts
    return y1*(q-x2)*(q-x3)/((x1-x2)*(x1-x3)) + y2*(q-x1)*(q-x3)/((x2-x1)*(x2-x3)) + y3*(q-x1)*(q-x2)/((x3-x1)*(x3-x2))
def line(p0,p1,q): return p0[1]+(p1[1]-p0[1])*(q-p0[0])/(p1[0]-p0[0])
bad=0; tot=0; which={}
for n in range(300):
    k=rnd.choice([3,3,4,5,8,20])
    ms=sorted(set(round(rnd.uniform(0,5),rnd.choice([1,2,6])) for _ in range(k)))
    if len(ms)<3: continue
    if rnd.random()<0.5: ms[0]=0.0; ms=sorted(set(ms))
    if len(ms)<3: continue
    pts=[(m, rnd.uniform(0.05,1.0)) for m in ms]
    dm=DragModel(rnd.uniform(0.1,1), [{'Mach':m,'CD':c} for m,c in pts])
    shot=Shot(weapon=Weapon(), ammo=Ammo(dm, Velocity.FPS(2600)))
    calc._calc._init_trajectory(shot)
    f=lambda q: calc._calc.drag_by_mach(q)*dm.BC/2.08551e-04
    N=len(pts)
    qs=[]
    for i in range(N):
        qs.append(pts[i][0])
        if i+1<N:
            a,b=pts[i][0],pts[i+1][0]; mid=(a+b)/2
            qs += [math.nextafter(a,9), math.nextafter(b,-9), mid, math.nextafter(mid,9), math.nextafter(mid,-9), rnd.uniform(a,b)]
    qs += [pts[-1][0]*1.1+0.1, pts[-1][0]+3, max(0.0,pts[0][0]-0.1) , 0.0]
    for q in qs:
        v=f(q); tot+=1
        # interval
        if q<=pts[0][0]: cands={'line01':line(pts[0],pts[1],q)}
        elif q>=pts[-1][0]: cands={'last3':lagr(pts[-3:],q)}
        else:
            i=max(j for j in range(N-1) if pts[j][0]<=q)
            cands={}
            if i>=1: cands['par_lo']=lagr(pts[i-1:i+2],q)
            if i+2<=N-1: cands['par_hi']=lagr(pts[i:i+3],q)
            if i==0: cands['line01']=line(pts[0],pts[1],q)
        ok=[nm for nm,c in cands.items() if abs(v-c)<=1e-9*max(1,abs(c),abs(v))]
        if not ok:
            bad+=1
            if bad<8: print('BAD', N, q, v, cands, pts[:4])
        else: which[ok[0]]=which.get(ok[0],0)+1
print('tot',tot,'bad',bad,which)
