import sys, warnings, time, math, threading, random, copy, os
warnings.simplefilter('ignore')
from py_ballisticcalc import *
import py_ballisticcalc
ROOT=os.path.dirname(py_ballisticcalc.__file__)
mon=sys.monitoring; TOOL=mon.PROFILER_ID
mon.use_tool_id(TOOL,'vf-sched')
last=[None]; sites=set(); nline=[0]; nyield=[0]
tl=threading.local()
def on_line(code, line):
    if not code.co_filename.startswith(ROOT): return mon.DISABLE
    nline[0]+=1
    tid=threading.get_ident()
    if last[0] is not None and last[0]!=tid: sites.add((os.path.basename(code.co_filename),line))
    last[0]=tid
    r=getattr(tl,'r',None)
    if r is None: r=tl.r=random.Random(tid)
    if r.random()<0.002: nyield[0]+=1; time.sleep(0)
mon.register_callback(TOOL, mon.events.LINE, on_line)
dm = DragModel(0.22, TableG7, 168, 0.308, 1.22)
def mk(i): return Shot(weapon=Weapon(2, 12), ammo=Ammo(dm, Velocity.FPS(2000+100*i)), look_angle=Angular.Degree(i))
def key(rows): return [(r.time, r.distance.raw_value, r.velocity.raw_value, r.height.raw_value) for r in rows]
gold=[key(Calculator().fire(mk(i), Distance.Yard(300), Distance.Yard(30)).trajectory) for i in range(6)]
res={}
def worker(i):
    c=Calculator()
    for k in range(3):
        res[(i,k)]=key(c.fire(mk(i), Distance.Yard(300), Distance.Yard(30)).trajectory)==gold[i]
sys.setswitchinterval(1e-5)
mon.set_events(TOOL, mon.events.LINE)
t=time.time(); ths=[threading.Thread(target=worker,args=(i,)) for i in range(6)]; [x.start() for x in ths]; [x.join() for x in ths]; dt=time.time()-t
mon.set_events(TOOL, 0)
print('all equal', all(res.values()), len(res), 'time %.1f s'%dt, 'line events', nline[0], 'yields', nyield[0], 'distinct switch sites', len(sites))
