import warnings, copy
warnings.simplefilter('ignore')
from py_ballisticcalc import *
base = DragModel(0.3, TableG7)
tbl = base.drag_table
before=[(p.Mach,p.CD) for p in tbl]
pts=[BCPoint(0.3, Mach=2.0), BCPoint(0.25, Mach=1.0), BCPoint(0.28, Mach=1.5)]
order_before=[id(p) for p in pts]
m1 = DragModelMultiBC(pts, tbl)
print('input points mutated:', before!=[(p.Mach,p.CD) for p in tbl], 'bc_points reordered:', order_before!=[id(p) for p in pts])
m2 = DragModelMultiBC(pts, tbl)
print('same model twice:', [(p.CD) for p in m1.drag_table][:3], [(p.CD) for p in m2.drag_table][:3], m1.drag_table[0] is m2.drag_table[0])
print('TableG7 dict unchanged', TableG7[0])
# effective BC law
std={p['Mach']:p['CD'] for p in TableG7}
m = DragModelMultiBC([BCPoint(0.3, Mach=2.0), BCPoint(0.25, Mach=1.0), BCPoint(0.28, Mach=1.5)], TableG7, weight=168, diameter=0.308)
for p in m.drag_table[::8]:
    print(p.Mach, std[p.Mach]*m.BC/p.CD)
# single point
s = DragModelMultiBC([BCPoint(0.3, Mach=2.0)], TableG7)
print(s.BC, s.drag_table[5].CD, TableG7[5]['CD']/0.3)
# duplicate Mach points
try:
    d = DragModelMultiBC([BCPoint(0.3, Mach=2.0), BCPoint(0.2, Mach=2.0), BCPoint(0.25, Mach=1.0)], TableG7)
    print([ (p.Mach, std[p.Mach]*d.BC/p.CD) for p in d.drag_table if 1.9<=p.Mach<=2.1])
except Exception as e: print('dup raised', repr(e))
