import warnings, math, sys
warnings.simplefilter('ignore')
import py_ballisticcalc as pb
from py_ballisticcalc import *
from py_ballisticcalc.trajectory_calc._trajectory_calc import TrajectoryCalc, TrajFlag, ZeroFindingError
# look 23.1 zd 1337 mv 1026: scan height vs elevation
import random
dm=DragModel(0.3, TableG1)
for mv,look,zd in [(1026,23.1,1337),(1026,0,1337)]:
    shot=Shot(weapon=Weapon(0,0,0), ammo=Ammo(dm, Velocity.FPS(mv)), look_angle=Angular.Degree(look))
    c=Calculator()
    hx=Distance.Yard(zd*math.cos(math.radians(look)))
    for rel in [0,2,4,6,8,10,12,15,20,25,30]:
        shot.relative_angle=Angular.Degree(rel)
        try:
            r=c.fire(shot,hx,hx)[-1]; print(look, rel, 'drop ft', r.target_drop>>Distance.Foot)
        except RangeError as e: print(look, rel,'RangeError',e.reason, e.last_distance)
    shot.relative_angle=Angular.Degree(0)
    try: print('zero:', c.set_weapon_zero(shot, Distance.Yard(zd))>>Angular.Degree)
    except Exception as e: print('zero failed', repr(e))
