import warnings, math, time, sys, random
warnings.simplefilter('ignore')
import py_ballisticcalc as pb
from py_ballisticcalc import *
random.seed(int(sys.argv[1]))
tables=['TableG1','TableG7','TableGS','TableRA4']
c=Calculator()
w1=0;w2=0;n=0
for i in range(int(sys.argv[2])):
    dm=DragModel(random.uniform(0.05,0.9), getattr(pb, random.choice(tables)))
    mv=random.uniform(250,700)
    look=random.choice([0,random.uniform(-30,30)])
    zd=random.uniform(5,250)
    shot=Shot(weapon=Weapon(Distance.Inch(random.uniform(0,3)), 0, 0), ammo=Ammo(dm, Velocity.FPS(mv)), look_angle=Angular.Degree(look), winds=[Wind(Velocity.FPS(random.uniform(0,50)), Angular.Degree(random.choice([0,180,random.uniform(0,360)])))] if random.random()<0.5 else [])
    hx = Distance.Yard(zd*math.cos(math.radians(look)))
    try: c.set_weapon_zero(shot, Distance.Yard(zd))
    except Exception as e: continue
    try: row=c.fire(shot,hx,hx)[-1]
    except RangeError: continue
    ang=row.angle>>Angular.Radian; rel=ang-math.radians(look); v=row.velocity>>Velocity.FPS
    wind=max((w.velocity>>Velocity.FPS) for w in shot.winds)
    dx=0.25*v/max(1.0,(v-wind))
    smax=(0.25+dx)/max(0.05,math.cos(ang))
    b1=5e-6+1.1*smax*abs(math.sin(rel))+1e-9
    kappa=(32.17405*abs(math.cos(ang)))/max(1.0,(v*math.cos(ang)))**2*2   # x2: drag also bends
    b2=b1+1.1*0.5*kappa*smax**2/ max(0.05,math.cos(ang))
    td=abs(row.target_drop>>Distance.Foot); n+=1
    if td/b1>w1: w1=td/b1; a1=(mv,look,zd,td,b1)
    w2=max(w2,td/b2)
print(n,'worst ratio without curvature',w1,a1,'with',w2)
