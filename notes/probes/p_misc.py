import warnings, math, sys, random
warnings.simplefilter('ignore')
import py_ballisticcalc as pb
from py_ballisticcalc import *
from py_ballisticcalc.trajectory_calc import _trajectory_calc as tcm
from gen import rand_shot
rnd=random.Random(5)
# --- C18 global step & locality
print('default step', pb.trajectory_calc._globalMaxCalcStepSizeFeet, 'gravity', pb.trajectory_calc.cGravityConstant)
a=Calculator(); set_global_max_calc_step_size(Distance.Foot(2)); b=Calculator(); c=Calculator(_config={'max_calc_step_size_feet':0.1})
print('steps a,b,c', a._calc._config.max_calc_step_size_feet, b._calc._config.max_calc_step_size_feet, c._calc._config.max_calc_step_size_feet)
for bad in [0,-1,Distance.Foot(0),Distance.Meter(-3)]:
    try: set_global_max_calc_step_size(bad); print('accepted',bad)
    except ValueError: print('rejected',bad, 'global still', pb.trajectory_calc._globalMaxCalcStepSizeFeet)
reset_globals(); print('after reset', pb.trajectory_calc._globalMaxCalcStepSizeFeet, get_global_max_calc_step_size())
cfg={'cGravityConstant':-10.0}; g=Calculator(_config=cfg); cfg['cGravityConstant']=-99; print('config copied', g._calc._config.cGravityConstant, g._calc.gravity_vector)
# gravity honoured in vacuum
shot=Shot(Weapon(), Ammo(DragModel(0.3,TableG7), Velocity.FPS(1000)), atmo=Vacuum())
r=g.fire(shot, Distance.Foot(1000), Distance.Foot(1000))[-1]; print('vac drop', r.height>>Distance.Foot, 'expected', -10*r.time**2/2, 't', r.time)
# --- C01 vacuum closed form
for el in [0.5, 10, 45]:
    shot=Shot(Weapon(Distance.Inch(2)), Ammo(DragModel(0.3,TableG7), Velocity.FPS(900)), relative_angle=Angular.Degree(el), atmo=Vacuum())
    for h in [0.5,0.25]:
        rr=Calculator(_config={'max_calc_step_size_feet':h}).fire(shot, Distance.Foot(3000), Distance.Foot(3000))[-1]
        t=3000/(900*math.cos(math.radians(el))); y=-2/12+900*math.sin(math.radians(el))*t-32.17405*t*t/2
        print('vac el',el,'h',h,'dy',(rr.height>>Distance.Foot)-y,'dt',rr.time-t,'bound g t dt/2', 32.17405*t*(h/2/900)/2)
# --- C03 time step clause via trace
TR=[]; orig=tcm._TrajectoryDataFilter.should_record
def w(self,p,v,m,t): TR.append(t); return orig(self,p,v,m,t)
tcm._TrajectoryDataFilter.should_record=w
worst=0
for n in range(40):
    s=rand_shot(rnd); ts=rnd.choice([0.001,0.01,0.05,0.2]); TR.clear()
    R=rnd.choice([300,1500]); 
    try: rows=Calculator().fire(s, Distance.Foot(R), Distance.Foot(R/rnd.choice([1,3])), time_step=ts).trajectory
    except RangeError as e: rows=e.incomplete_trajectory
    dtmax=max(b-a for a,b in zip(TR,TR[1:]))
    for a,b in zip(rows,rows[1:]):
        worst=max(worst, (b.time-a.time-ts)/dtmax)
print('time-step clause: worst (gap - ts)/dt_max =', worst)
