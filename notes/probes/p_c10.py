import warnings, math, sys, random, time, copy, threading
warnings.simplefilter('ignore')
from py_ballisticcalc import *
from gen import rand_shot
sys.setswitchinterval(1e-6)
rnd=random.Random(7)
def snap(o, seen=None, depth=0):
    if isinstance(o, AbstractDimension): return ('Q', type(o).__name__, o.raw_value)
    if isinstance(o,(int,float,str,bool,type(None))): return o
    if isinstance(o,(list,tuple)): return [snap(x) for x in o]
    if isinstance(o,dict): return {k:snap(v) for k,v in o.items()}
    d={}
    for k in (getattr(o,'__dict__',{}) or {}): d[k]=snap(getattr(o,k))
    for k in getattr(type(o),'__slots__',()): d[k]=snap(getattr(o,k))
    return (type(o).__name__, d)
def key(rows): return [(r.time, r.distance.raw_value, r.velocity.raw_value, r.mach, r.height.raw_value, r.windage.raw_value, r.angle.raw_value, r.flag) for r in rows]
shots=[rand_shot(rnd) for _ in range(8)]
jobs=[(i, rnd.choice([300,900]), rnd.choice([30,100]), rnd.random()<0.5) for i in range(8)]
def run(calc, shot, job):
    _,R,S,ex=job
    try: return ('ok', key(calc.fire(shot, Distance.Foot(R), Distance.Foot(S), extra_data=ex).trajectory))
    except RangeError as e: return ('err', e.reason, key(e.incomplete_trajectory))
gold=[run(Calculator(), copy.deepcopy(shots[j[0]]), j) for j in jobs]
snaps=[snap(s) for s in shots]
res={}
def worker(tid):
    calc=Calculator(); r=random.Random(tid)
    for k in range(6):
        j=r.choice(jobs)
        out=run(calc, shots[j[0]], j)   # shared shot objects, read-only use
        res[(tid,k)]=(j, out==gold[jobs.index(j)])
ths=[threading.Thread(target=worker,args=(t,)) for t in range(8)]
t0=time.time(); [t.start() for t in ths]; [t.join() for t in ths]
print('threads done', time.time()-t0, 'all equal', all(v[1] for v in res.values()), len(res))
print('args unchanged', [snap(s) for s in shots]==snaps)
