import warnings, math, random
warnings.simplefilter('ignore')
from py_ballisticcalc import *
rnd=random.Random(4); bad={'p':0,'t':0,'h':0,'eq':0}; n=0; minh=1
for i in range(30000):
    T=rnd.uniform(-60,60); P=rnd.uniform(500,1100); H=rnd.uniform(0,100); alt=rnd.uniform(-1400,36000)
    a=Atmo(Distance.Foot(alt), Pressure.hPa(P), Temperature.Celsius(T), H).density_ratio
    dP=rnd.uniform(0.01,50); dT=rnd.uniform(0.01,10); dH=rnd.uniform(1,30)
    if Atmo(Distance.Foot(alt), Pressure.hPa(P+dP), Temperature.Celsius(T), H).density_ratio<=a: bad['p']+=1
    if Atmo(Distance.Foot(alt), Pressure.hPa(P), Temperature.Celsius(T+dT), H).density_ratio>=a: bad['t']+=1
    if H+dH<=100:
        b=Atmo(Distance.Foot(alt), Pressure.hPa(P), Temperature.Celsius(T), H+dH).density_ratio
        if b>a: bad['h']+=1
        elif b==a: bad['eq']+=1; 
        else: minh=min(minh,(a-b)/a)
    n+=1
print(n,bad,'min rel humidity effect',minh)
# humidity percent vs fraction
w=0
for i in range(2000):
    f=rnd.uniform(0.0101,1.0); x=Atmo(humidity=f); y=Atmo(humidity=100*f); w=max(w,abs(x.density_ratio-y.density_ratio)/x.density_ratio)
print('fraction vs percent worst rel', w)
a=Atmo(); a.humidity=50; b=Atmo(humidity=0.5); print('setter', a.density_ratio==b.density_ratio)
try: a.humidity=101; print('setter accepted 101')
except ValueError: print('setter rejects 101')
