import random, math
import py_ballisticcalc as pb
from py_ballisticcalc import *
tables=['TableG1','TableG7','TableG2','TableG5','TableG6','TableG8','TableGI','TableGS','TableRA4']
def rand_shot(rnd, flat=False, twist=True):
    tbl=getattr(pb, rnd.choice(tables))
    bc=rnd.choice([rnd.uniform(0.05,0.2), rnd.uniform(0.2,0.7), rnd.uniform(0.7,1.2)])
    dm=DragModel(bc, tbl, rnd.uniform(50,750), rnd.uniform(0.2,0.6), rnd.uniform(0.5,2.5))
    mv=rnd.choice([rnd.uniform(300,1100), rnd.uniform(1100,3500)])
    look=rnd.choice([0,0,rnd.uniform(-45,45)])
    ze=rnd.uniform(-0.2,1)
    rel=0 if flat else rnd.choice([0, rnd.uniform(-2,10), rnd.uniform(0,40)])
    cant=rnd.choice([0,0,rnd.uniform(-90,90)])
    atmo=rnd.choice([Atmo.icao(), Atmo.icao(Distance.Foot(rnd.uniform(-1000,12000))), Atmo(Distance.Foot(rnd.uniform(0,9000)), Pressure.hPa(rnd.uniform(600,1050)), Temperature.Celsius(rnd.uniform(-30,45)), rnd.uniform(0,100))])
    nw=rnd.choice([0,1,2,3])
    winds=[Wind(Velocity.MPH(rnd.uniform(0,40)), Angular.Degree(rnd.choice([0,180,90,270,rnd.uniform(0,360)])), Distance.Yard(rnd.uniform(30,1500))) for _ in range(nw)]
    if nw and rnd.random()<0.5: winds[-1]=Wind(winds[-1].velocity, winds[-1].direction_from)
    sh=rnd.choice([0, rnd.uniform(-2,5)])
    tw=rnd.choice([0,10,-9]) if twist else 0
    return Shot(weapon=Weapon(Distance.Inch(sh), tw, Angular.Degree(ze)), ammo=Ammo(dm, Velocity.FPS(mv)),
                look_angle=Angular.Degree(look), relative_angle=Angular.Degree(rel), cant_angle=Angular.Degree(cant), atmo=atmo, winds=winds)
