import warnings, random, math
warnings.simplefilter('ignore')
from py_ballisticcalc import *
from py_ballisticcalc.helpers import *
from py_ballisticcalc.trajectory_calc import create_trajectory_row
from py_ballisticcalc.vector import Vector
def mk(ds, ts, hs=None):
    rows=[]
    for i,(d,t) in enumerate(zip(ds,ts)):
        h = hs[i] if hs else 0.0
        rows.append(create_trajectory_row(t, Vector(d,h,0.0), Vector(100.0,0.0,0.0), 100.0, 1116.0, 0.0, 0.0, 1.0, 0.0, 100.0, 8))
    return HitResult(None, rows, True)
random.seed(3)
bad=0
for n in [0,1,2,3,5,8]:
  for rep in range(300):
    ds=sorted(random.choice([random.uniform(0,100), random.randint(0,10)]) for _ in range(n))
    ts=sorted(random.choice([random.uniform(0,2), random.randint(0,4)*0.5]) for _ in range(n))
    hr=mk(ds,ts)
    for q in [0, -1, 5, 100.5, *(ds[:3]), random.uniform(0,100)]:
        exp = next((i for i,d in enumerate(ds) if (Distance.Foot(d)>>Distance.Meter) >= q), -1)
        try: got = find_index_of_point_for_distance(hr, q, Distance.Meter)
        except Exception as e: got = repr(e)
        if got!=exp: bad+=1; print('dist', ds, q, got, exp) if bad<10 else None
        exp2 = next((i for i,d in enumerate(ds) if Distance.Foot(d).raw_value >= Distance.Meter(q).raw_value), -1)
        got2 = hr.index_at_distance(Distance.Meter(q))
        if got2!=exp2: bad+=1; print('idx_at', ds, q, got2, exp2) if bad<10 else None
    for q in [0, 0.5, 1.0, 2.5, *(ts[:3]), random.uniform(0,2)]:
        exp = next((i for i,t in enumerate(ts) if t >= q), -1)
        try: got = find_index_for_time_point(hr, q)
        except Exception as e: got = repr(e)
        if got!=exp: bad+=1; print('time', ts, q, got, exp) if bad<10 else None
        for dev in [0, 0.1, 1]:
            try: got = find_index_for_time_point(hr, q, False, dev)
            except Exception as e: got = repr(e)
            if n==0: exp=-1
            else:
                md=min(abs(t-q) for t in ts); cand=[i for i,t in enumerate(ts) if abs(t-q)==md]
                exp = cand[0] if md<=dev else -1
            if got!=exp:
                bad+=1
                if n>0: print("near", ts, q, dev, got, exp)
print('bad', bad)
print(find_index_of_apex_in_points([]), )
