import warnings, math, itertools, random
warnings.simplefilter('ignore')
from py_ballisticcalc import *
random.seed(1)
dims = {Distance:[u for u in Unit if 10<=u<20], Pressure:[u for u in Unit if 40<=u<50], Weight:[u for u in Unit if 70<=u<80], Velocity:[u for u in Unit if 60<=u<70], Energy:[u for u in Unit if 30<=u<40], Temperature:[u for u in Unit if 50<=u<60], Angular:[u for u in Unit if 0<=u<10]}
def ulps(a,b,scale=None):
    s = max(abs(a),abs(b)) if scale is None else scale
    if s==0: return 0 if a==b else float('inf')
    return abs(a-b)/math.ulp(s)
worst_rt={}; worst_tr={}
for D,us in dims.items():
    for _ in range(3000):
        mag = random.choice([random.uniform(-1e3,1e3), random.uniform(-1,1), 10**random.uniform(-8,8)*random.choice([-1,1])])
        a,b,c = (random.choice(us) for _ in range(3))
        if D is Angular:
            # keep within one turn: build from radians in (-2pi,2pi)
            rad = random.uniform(-1.5,1.5) if (a in (Unit.InchesPer100Yd,Unit.CmPer100m) or b in (Unit.InchesPer100Yd,Unit.CmPer100m) or c in (Unit.InchesPer100Yd,Unit.CmPer100m)) else random.uniform(-2*math.pi,2*math.pi)
            mag = D(rad, Unit.Radian) >> a
        q = D(mag,a)
        vb = q >> b
        back = D(vb,b) >> a
        scale = max(abs(mag),abs(back), abs(vb) if D is Temperature else 0, 500 if D is Temperature else 0)
        u = ulps(mag,back,scale)
        k=(D.__name__,)
        if u>worst_rt.get(k,(0,))[0]: worst_rt[k]=(u,a,b,mag,back)
        vc1 = D(vb,b) >> c
        vc2 = q >> c
        scale = max(abs(vc1),abs(vc2), 500 if D is Temperature else 0)
        u = ulps(vc1,vc2,scale)
        if u>worst_tr.get(k,(0,))[0]: worst_tr[k]=(u,a,b,c,mag,vc1,vc2)
for k,v in worst_rt.items(): print('RT',k,v)
for k,v in worst_tr.items(): print('TR',k,v)
