import warnings
warnings.simplefilter('ignore')
from py_ballisticcalc import *
a=Distance.Yard(1); b=Distance.Foot(3)
print(a==b, hash(a)==hash(b), a.raw_value, b.raw_value)
h=hash(a); a << Distance.Meter; print('hash stable under <<', h==hash(a))
d=Distance.Yard(100); s={d}; PreferredUnits.distance = Unit.Meter; Calculator  # noqa
x=PreferredUnits.distance(d); print('in set after coercion', d in s, d.units); PreferredUnits.defaults()
# cross-dimension
q=Distance.Yard(1)
for op in ['q >> Unit.Grain','q.get_in(Unit.Grain)','(q << Unit.Grain).unit_value','str(Unit.Grain(Distance.Yard(1)))','Distance(1, Unit.Grain)','Unit.Grain(Distance.Yard(1)).raw_value', 'Unit.Grain(Distance.Yard(1)) >> Unit.Grain']:
    q=Distance.Yard(1)
    try: print(op,'->',eval(op))
    except Exception as e: print(op,'raised',type(e).__name__, e)
print(Distance.Inch(36)==Weight.Grain(36), Distance.Inch(36)<Weight.Grain(37))
print(Distance.Inch(36)==36, 36==Distance.Inch(36), Distance.Inch(36)!=36.0, Distance.Yard(1) != Distance.Foot(3))
import math
print(Distance.Yard(1) == None)
try: print(Distance.Yard(1) < None)
except Exception as e: print('lt None', type(e).__name__)
print(repr(Distance.Yard(1)), str(Distance.Yard(1)))
