import warnings, math
warnings.simplefilter('ignore')
import py_ballisticcalc as pb
from py_ballisticcalc import *
names=['TableG1','TableG7','TableG2','TableG5','TableG6','TableG8','TableGI','TableGS','TableRA4']
calc=Calculator()
for nm in names:
    tbl=getattr(pb,nm)
    dm=DragModel(1.0,tbl)
    shot=Shot(weapon=Weapon(), ammo=Ammo(dm, Velocity.FPS(2600)))
    calc._calc._init_trajectory(shot)
    f=lambda q: calc._calc.drag_by_mach(q)/2.08551e-04
    M=[p['Mach'] for p in tbl]; C=[p['CD'] for p in tbl]
    asc=all(b>a for a,b in zip(M,M[1:]))
    worst=0; arg=None; minv=1e9; nodeerr=0
    for i in range(len(M)-1):
        nodeerr=max(nodeerr, abs(f(M[i])-C[i]))
        for k in range(1,40):
            q=M[i]+(M[i+1]-M[i])*k/40
            lin=C[i]+(C[i+1]-C[i])*k/40
            v=f(q); minv=min(minv,v)
            r=abs(v/lin-1)
            if r>worst: worst=r; arg=(q,v,lin)
    nodeerr=max(nodeerr, abs(f(M[-1])-C[-1]))
    print(nm, len(M), 'first',M[0],'last',M[-1],'asc',asc,'worst rel dev from linear',round(worst,5),arg,'min',minv,'nodeerr',nodeerr)
