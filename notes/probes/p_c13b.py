import warnings, math, sys, random
warnings.simplefilter('ignore')
from py_ballisticcalc import *
rnd=random.Random(int(sys.argv[1]))
DIM={Angular:[u for u in Unit if u<10], Distance:[u for u in Unit if 10<=u<20], Energy:[u for u in Unit if 30<=u<40], Pressure:[u for u in Unit if 40<=u<50], Temperature:[u for u in Unit if 50<=u<60], Velocity:[u for u in Unit if 60<=u<70], Weight:[u for u in Unit if 70<=u<80]}
slot_for={Angular:['angular','adjustment'], Distance:['distance','drop','sight_height','twist','length','diameter','target_height'], Energy:['energy'], Pressure:['pressure'], Temperature:['temperature'], Velocity:['velocity'], Weight:['weight','ogw']}
def mag(D):
    if D is Angular: return rnd.uniform(-3,3)
    return rnd.choice([0.0, 1.0, -2.5, rnd.uniform(-1e3,1e3), 10**rnd.uniform(-6,6)])
bad=[]; nops=0; opcount={}
calc=Calculator(); dm=DragModel(0.3,TableG7); 
for hist in range(int(sys.argv[2])):
    pool=[]
    for _ in range(20):
        D=rnd.choice(list(DIM)); u=rnd.choice(DIM[D])
        if D is Angular: q=D(mag(D), Unit.Radian); q=D(q>>u, u)
        else: q=D(mag(D), u)
        sh={'raw':q.raw_value, 'vals':{v:q.get_in(v) for v in DIM[D]}, 'hash':hash(q)}
        pool.append((q,sh,D))
    # duplicates with equal magnitude in different display unit
    q0,sh0,D0=pool[0]; twin=D0(q0>>DIM[D0][0], DIM[D0][0]) ; 
    for step in range(100):
        q,sh,D=rnd.choice(pool); op=rnd.choice(['lshift','rshift','convert','get_in','str','repr','hash','cmp','unitcall','prefcall','foreign','lib','float'])
        opcount[op]=opcount.get(op,0)+1; nops+=1
        try:
            if op=='lshift': q << rnd.choice(DIM[D])
            elif op=='rshift': q >> rnd.choice(DIM[D])
            elif op=='convert': q.convert(rnd.choice(DIM[D]))
            elif op=='get_in': q.get_in(rnd.choice(DIM[D]))
            elif op=='str': str(q)
            elif op=='repr': repr(q)
            elif op=='float': float(q)
            elif op=='hash':
                if hash(q)!=sh['hash']: bad.append(('hash changed', D.__name__))
            elif op=='cmp':
                o,osh,OD=rnd.choice(pool)
                for nm,f in [('lt',lambda a,b:a<b),('le',lambda a,b:a<=b),('gt',lambda a,b:a>b),('ge',lambda a,b:a>=b),('eq',lambda a,b:a==b),('ne',lambda a,b:a!=b)]:
                    if f(q,o)!=f(sh['raw'],osh['raw']): bad.append(('cmp',nm))
                    x=rnd.choice([0,1,-1.5,sh['raw']])
                    if f(q,x)!=f(sh['raw'],x): bad.append(('cmpnum',nm))
                if q==o and hash(q)!=hash(o) and D is OD: bad.append(('eq but hash differs',D.__name__))
            elif op=='unitcall': rnd.choice(DIM[D])(q)
            elif op=='prefcall': getattr(PreferredUnits, rnd.choice(slot_for[D]))(q)
            elif op=='foreign':
                FD=rnd.choice([d for d in DIM if d is not D]); fu=rnd.choice(DIM[FD])
                k=rnd.choice(['rshift','get_in','ctor','convert_then_read'])
                try:
                    if k=='rshift': r=q>>fu
                    elif k=='get_in': r=q.get_in(fu)
                    elif k=='ctor': r=D(1.0, fu)
                    else:
                        old=q.units; q<<fu
                        try: r=q.unit_value
                        finally: q<<old
                    bad.append(('foreign read returned',k,r))
                except UnitConversionError: pass
            elif op=='lib':
                if D is Distance and q.raw_value>0:
                    Weapon(sight_height=q); Atmo(altitude=q) if abs(q>>Distance.Foot)<30000 else None; Wind(Velocity.FPS(3), Angular.Degree(90), q)
                elif D is Velocity: Wind(q, Angular.Degree(10)); 
                elif D is Angular: Shot(Weapon(), Ammo(dm, Velocity.FPS(2600)), look_angle=q)
                elif D is Weight: DragModel(0.3, TableG7, q, Distance.Inch(0.3), Distance.Inch(1))
                elif D is Temperature and -80<(q>>Temperature.Celsius)<80: Atmo(temperature=q)
                elif D is Pressure and 300<(q>>Pressure.hPa)<1100: Atmo(pressure=q)
        except Exception as e:
            bad.append(('op raised',op,type(e).__name__,str(e)[:50]))
        for (p,psh,PD) in pool:
            if p.raw_value!=psh['raw']: bad.append(('raw changed',op)); psh['raw']=p.raw_value
            for v,val in psh['vals'].items():
                if p.get_in(v)!=val and not (math.isnan(val) and math.isnan(p.get_in(v))): bad.append(('value changed',op,v)); break
    if hash(twin)!=hash(q0) and twin==q0: bad.append(('equal twin hash differs', D0.__name__))
PreferredUnits.defaults()
from collections import Counter
print('ops',nops,opcount); print('bad',len(bad), Counter(b[:2] for b in bad).most_common(8))
