import warnings, math, sys, random, time, copy
warnings.simplefilter('ignore')
from py_ballisticcalc import *
from gen import rand_shot
rnd=random.Random(int(sys.argv[1]))
c=Calculator()
def key(r): return (r.time, r.distance.raw_value, r.velocity.raw_value, r.mach, r.height.raw_value, r.windage.raw_value, r.angle.raw_value)
def fire(shot, winds, R, S):
    s=copy.copy(shot); s.winds=winds
    try: return c.fire(s, Distance.Foot(R), Distance.Foot(S)).trajectory
    except RangeError as e: return e.incomplete_trajectory[:-1]
stats={}
def note(k, ok): 
    a=stats.setdefault(k,[0,0]); a[0]+=1; a[1]+= (not ok)
for n in range(int(sys.argv[2])):
    shot=rand_shot(rnd, twist=False); shot.cant_angle=Angular.Degree(0)
    R=rnd.choice([900,2400]); S=R/12
    nw=rnd.randint(1,4)
    untils=sorted(rnd.uniform(50,R*1.2) for _ in range(nw))
    winds=[Wind(Velocity.FPS(rnd.uniform(0,60)), Angular.Degree(rnd.uniform(0,360)), Distance.Foot(u)) for u in untils]
    base=fire(shot, winds, R, S)
    # permutation
    p=winds[:]; rnd.shuffle(p)
    note('perm', [key(r) for r in fire(shot,p,R,S)]==[key(r) for r in base])
    # zero wind == none == [] 
    a=fire(shot, [], R, S); b=fire(shot, None, R, S); z=fire(shot, [Wind(0, Angular.Degree(rnd.uniform(0,360)), Distance.Foot(u)) for u in untils], R, S)
    note('zero==empty', [key(r) for r in a]==[key(r) for r in b]==[key(r) for r in z])
    # trailing explicit zero wind
    note('trailing zero', [key(r) for r in fire(shot, winds+[Wind(0,0)], R, S)]==[key(r) for r in base])
    # split
    i=rnd.randrange(nw); lo=untils[i-1] if i else 0.0; mid=rnd.uniform(lo, untils[i])
    sp=winds[:i]+[Wind(winds[i].velocity, winds[i].direction_from, Distance.Foot(mid))]+winds[i:]
    note('split', [key(r) for r in fire(shot,sp,R,S)]==[key(r) for r in base])
    # causality: change segments beginning beyond D
    j=rnd.randrange(nw); D=untils[j-1] if j else 0.0
    ch=winds[:j]+[Wind(Velocity.FPS(rnd.uniform(0,60)), Angular.Degree(rnd.uniform(0,360)), w.until_distance) for w in winds[j:]]+[Wind(Velocity.FPS(30), Angular.Degree(77))]
    rc=fire(shot,ch,R,S)
    ok=all(key(x)==key(y) for x,y in zip(base,rc) if x.distance.raw_value<=D*12)
    note('causal', ok)
    # mirror
    mw=[Wind(w.velocity, Angular.Degree(360-(w.direction_from>>Angular.Degree)), w.until_distance) for w in winds]
    rm=fire(shot,mw,R,S)
    ok=True; worst=0
    for x,y in zip(base,rm):
        kx=key(x); ky=key(y)
        for idx,(u,v) in enumerate(zip(kx,ky)):
            if idx==5: v=-v
            e=abs(u-v)/max(abs(u),abs(v),1e-6); worst=max(worst,e)
    note('mirror', worst<1e-9); mw_=stats.setdefault('mirror_worst',[0]); mw_[0]=max(mw_[0],worst)
print(stats)
