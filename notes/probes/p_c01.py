import warnings, math, time, sys
warnings.simplefilter('ignore')
from py_ballisticcalc import *
from refsolve import ref_trajectory
dm = DragModel(0.22, TableG7, 168, 0.308, 1.22)
shot = Shot(weapon=Weapon(Distance.Inch(2), 0, Angular.Mil(3)), ammo=Ammo(dm, Velocity.FPS(2600)),
            winds=[Wind(Velocity.MPH(10), Angular.OClock(3), Distance.Yard(400)), Wind(Velocity.MPH(15), Angular.OClock(8), Distance.Yard(700))])
xs=[300.0*k for k in range(0,11)]
c=Calculator()
t=time.time(); r1=ref_trajectory(c, shot, xs, h=0.05); print('ref .05', time.time()-t)
t=time.time(); r2=ref_trajectory(c, shot, xs, h=0.1); print('ref .1', time.time()-t)
print('ref self-diff at 3000ft:', [a-b for a,b in zip(r1[3000.0], r2[3000.0])])
res={}
for h in [1.0, 0.5, 0.25, 0.125]:
    cc=Calculator(_config={'max_calc_step_size_feet':h})
    hr=cc.fire(shot, Distance.Foot(3000), Distance.Foot(300))
    res[h]=hr
    row=hr[-1]
    ref=r1[3000.0]
    print(h, 'dx', (row.distance>>Distance.Foot)-3000, 'dy', (row.height>>Distance.Foot)-ref[2], 'dz', (row.windage>>Distance.Foot)-ref[3], 'dv', (row.velocity>>Velocity.FPS)-math.sqrt(ref[4]**2+ref[5]**2+ref[6]**2), 'dt', row.time-ref[0])
