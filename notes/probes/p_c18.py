import warnings, logging
warnings.simplefilter('ignore')
from py_ballisticcalc import *
from py_ballisticcalc.unit import _parse_unit, _parse_value
logging.getLogger('py_balcalc').setLevel(logging.ERROR)
bad=[]
for u in Unit:
    for name in {u.name, u.name.lower(), u.name.upper(), ' '+u.name+' '}:
        try: r=_parse_unit(name)
        except Exception as e: r=repr(e)
        if r is not u: bad.append(('name',u.name,name,r))
for al,u in UnitAliases.items():
    for a in al:
        for name in {a, a.upper(), a.lower(), a.title()}:
            try: r=_parse_unit(name)
            except Exception as e: r=repr(e)
            if r is not u: bad.append(('alias',u.name,name,r))
for b in bad: print(b)
print('--- parse_value')
for u in Unit:
    for s in [f'10{u.name}', f'10 {u.name.lower()}', f'-1.5{u.name}']:
        try: r=_parse_value(s, None)
        except Exception as e: r=repr(e)
        ok = isinstance(r, AbstractDimension) and r.units is u
        if not ok: print(u.name, s, r)
print('--- set')
for u in Unit:
    slot = {0:'angular',1:'distance',3:'energy',4:'pressure',5:'temperature',6:'velocity',7:'weight'}[u//10]
    PreferredUnits.defaults()
    before = getattr(PreferredUnits, slot)
    PreferredUnits.set(**{slot:u.name})
    if getattr(PreferredUnits, slot) is not u: print('set by name failed', u.name, getattr(PreferredUnits,slot))
PreferredUnits.defaults()
for bogus in ['set','defaults','__doc__','distance','nonsense','', 'meters', 'yards','inches']:
    PreferredUnits.defaults()
    try:
        PreferredUnits.set(distance=bogus); print(repr(bogus), '->', repr(PreferredUnits.distance))
    except Exception as e: print(repr(bogus), 'raised', repr(e))
PreferredUnits.defaults()
