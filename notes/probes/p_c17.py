import warnings
warnings.simplefilter('ignore')
from py_ballisticcalc import *
dm = DragModel(0.3, TableG7)
for (v0,t0,v1,t1) in [(850,15,820,0),(820,0,850,15),(850,15,880,30),(850,15,820,30),(850,15,880,0)]:
    a = Ammo(dm, Velocity.MPS(v0), Temperature.Celsius(t0), use_powder_sensitivity=True)
    m = a.calc_powder_sens(Velocity.MPS(v1), Temperature.Celsius(t1))
    print((v0,t0,v1,t1), 'mod', m, 'v(t1)=', a.get_velocity_for_temp(Temperature.Celsius(t1))>>Velocity.MPS, 'v(t0)=', a.get_velocity_for_temp(Temperature.Celsius(t0))>>Velocity.MPS)
# Sight
s = Sight('SFP', Distance.Meter(100), h_click_size=Angular.Mil(0.1), v_click_size=Angular.Mil(0.25))
print(s.get_adjustment(Distance.Meter(200), Angular.Mil(1), Angular.Mil(1), 10))
print('expected v', 1/(0.25*100/200*10), 'h', 1/(0.1*100/200*10))
s = Sight('FFP', None, h_click_size=Angular.Mil(0.1), v_click_size=Angular.Mil(0.25)); print(s.get_adjustment(Distance.Meter(200), Angular.Mil(-1), Angular.Mil(1), 10))
s = Sight('LWIR', None, h_click_size=Angular.Mil(0.1), v_click_size=Angular.Mil(0.25)); print(s.get_adjustment(Distance.Meter(200), Angular.Mil(-1), Angular.Mil(1), 2))
for args in [('XFP',None,1,1),('SFP',None,1,1),('SFP',0,1,1),('SFP',Distance.Meter(0),1,1),('FFP',None,0,1),('FFP',None,1,-1),('FFP',None,None,1),('FFP',None,Angular.Mil(-1),1)]:
    try: Sight(*args); print(args,'accepted')
    except Exception as e: print(args,'rejected',type(e).__name__)
