import warnings, math, sys, random, time
warnings.simplefilter('ignore')
from py_ballisticcalc import *
from gen import rand_shot
rnd=random.Random(int(sys.argv[1]))
c=Calculator()
def key(r): return (r.time, r.distance.raw_value, r.velocity.raw_value, r.mach, r.height.raw_value, r.windage.raw_value, r.angle.raw_value, r.energy.raw_value)
worst=0; nrel=0; bad=0; extra_bad=0
for n in range(int(sys.argv[2])):
    shot=rand_shot(rnd)
    S=rnd.choice([10,25,50,100.0]); R=S*rnd.randint(3,30)
    reqs=[(R,S,0.0,False),(R,S,0.0,True),(R*2,S,0.0,False),(R,S*rnd.choice([2,3]),0.0,False),(R,S/rnd.choice([2,5]),0.0,False),(R,S,rnd.choice([0.001,0.01,0.1]),False),(R,S,rnd.choice([0.001,0.01,0.1]),True)]
    res=[]
    for (r,s,ts,ex) in reqs:
        try: rows=c.fire(shot, Distance.Foot(r), Distance.Foot(s), extra_data=ex, time_step=ts).trajectory
        except RangeError as e: rows=e.incomplete_trajectory[:-1]
        res.append(rows)
    base=res[0]
    for (req,rows) in zip(reqs[1:],res[1:]):
        for b in base:
            d=b.distance.raw_value
            m=[r for r in rows if abs(r.distance.raw_value-d)<=1e-9*max(1,abs(d)) and (r.flag & TrajFlag.RANGE)]
            if not m: continue
            # choose the one with closest time
            r=min(m,key=lambda r: abs(r.time-b.time))
            nrel+=1
            for a,bb in zip(key(b),key(r)):
                e=abs(a-bb)/max(abs(a),abs(bb),1e-9)
                if e>worst: worst=e; arg=(req,d,a,bb)
                if e>1e-9: bad+=1
    # extra contains plain + only event rows
    plain=res[0]; extra=res[1]
    pk=[key(r) for r in plain]
    ek=[key(r) for r in extra]
    for k in pk:
        if k not in ek: extra_bad+=1
    for r in extra:
        if key(r) not in pk and not (r.flag & (TrajFlag.ZERO|TrajFlag.MACH|TrajFlag.APEX)): extra_bad+=1; print('extra non-event row', r.flag, r.distance>>Distance.Foot, 'R',R,'S',S)
print('relations',nrel,'worst rel diff',worst, arg if worst else None,'bad',bad,'extra_bad',extra_bad)
