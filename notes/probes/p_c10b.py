import warnings, math, sys, random, copy
warnings.simplefilter('ignore')
from py_ballisticcalc import *
from gen import rand_shot
rnd=random.Random(int(sys.argv[1]))
def snap(o):
    if isinstance(o, AbstractDimension): return ('Q', type(o).__name__, float(o.raw_value).hex())
    if isinstance(o, float): return o.hex()
    if isinstance(o,(int,str,bool,type(None))): return o
    if isinstance(o,(list,tuple)): return [snap(x) for x in o]
    if isinstance(o,dict): return {k:snap(v) for k,v in o.items()}
    d={}
    for k in sorted(getattr(o,'__dict__',{}) or {}): d[k]=snap(getattr(o,k))
    return (type(o).__name__, d)
def key(rows): return [tuple(snap(x) for x in r) for r in rows]
cfgs=[None, {'max_calc_step_size_feet':1.0}, {'cMinimumVelocity':600, 'cMaximumDrop':-50}]
pool=[rand_shot(rnd) for _ in range(6)]
# share objects on purpose
pool[1].ammo=pool[0].ammo; pool[2].weapon=pool[0].weapon; pool[3].atmo=pool[0].atmo
calcs=[Calculator(_config=c) for c in cfgs]
def do(calc, shot, op):
    kind=op[0]
    try:
        if kind=='fire': return ('ok', key(calc.fire(shot, Distance.Foot(op[1]), Distance.Foot(op[2]), extra_data=op[3], time_step=op[4]).trajectory))
        if kind=='zero': return ('ok', snap(calc.set_weapon_zero(shot, Distance.Foot(op[1]))))
        if kind=='elev': return ('ok', snap(calc.barrel_elevation_for_target(shot, Distance.Foot(op[1]))))
        if kind=='danger':
            hr=calc.fire(shot, Distance.Foot(op[1]), Distance.Foot(op[1]/20), extra_data=True)
            ds=hr.danger_space(Distance.Foot(op[2]), Distance.Foot(op[3])); return ('ok', [snap(tuple(ds.begin)), snap(tuple(ds.end))])
    except RangeError as e: return ('RangeError', e.reason, key(e.incomplete_trajectory), snap(e.last_distance))
    except ZeroFindingError as e: return ('ZeroFindingError', e.iterations_count, e.zero_finding_error.hex(), snap(e.last_barrel_elevation))
    except ArithmeticError as e: return ('ArithmeticError',)
bad=0; nops=0; kinds={}; outcomes={}
for step in range(int(sys.argv[2])):
    ci=rnd.randrange(len(calcs)); si=rnd.randrange(len(pool)); shot=pool[si]
    R=rnd.choice([200,600,1500, 20000])
    op=rnd.choice([('fire',R,R/rnd.choice([1,5,10]),rnd.random()<0.4,rnd.choice([0.0,0.0,0.01])), ('zero',rnd.choice([150,300,900,30000])), ('elev',rnd.choice([150,300,900])), ('danger',R,R*rnd.uniform(0.1,1.3),rnd.uniform(0.1,5))])
    gold_shot=copy.deepcopy(shot); gold=do(Calculator(_config=cfgs[ci]), gold_shot, op)
    before=[snap(s) for s in pool]
    got=do(calcs[ci], shot, op)
    after=[snap(s) for s in pool]
    nops+=1; kinds[op[0]]=kinds.get(op[0],0)+1; outcomes[got[0]]=outcomes.get(got[0],0)+1
    if got!=gold: bad+=1; print('RESULT DIFF', op, got[0], gold[0])
    # mutation check
    if op[0]=='zero' and got[0]=='ok':
        # only weapon.zero_elevation of this shot's weapon may change: compare with gold_shot
        exp=[snap(s) for s in pool]  # can't easily mask; compare shot vs gold_shot
        if snap(shot)!=snap(gold_shot): bad+=1; print('ZERO MUTATION DIFF')
        # others sharing the weapon change too; check non-weapon parts unchanged
        for b,a in zip(before,after):
            import json
            sb=json.dumps(b); sa=json.dumps(a)
        # mask zero_elevation
        def mask(x):
            if isinstance(x,list): return [mask(y) for y in x]
            if isinstance(x,tuple) and len(x)==2 and isinstance(x[1],dict): return (x[0],{k:(None if k=='zero_elevation' else mask(v)) for k,v in x[1].items()})
            return x
        if [mask(b) for b in before]!=[mask(a) for a in after]: bad+=1; print('ZERO changed more than zero_elevation')
    else:
        if before!=after: bad+=1; print('ARG MUTATION', op, got[0])
print('ops',nops,kinds,outcomes,'bad',bad)
