import warnings, math, random
warnings.simplefilter('ignore')
from py_ballisticcalc import *
rnd=random.Random(4); bad=0; n=0; worst=None
for i in range(40000):
    T=rnd.uniform(-60,60); P=rnd.uniform(500,1100); alt=rnd.uniform(-1400,36000)
    H=rnd.uniform(1.0001,100); dH=rnd.uniform(0.5,30)
    if H+dH>100: continue
    a=Atmo(Distance.Foot(alt), Pressure.hPa(P), Temperature.Celsius(T), H).density_ratio
    b=Atmo(Distance.Foot(alt), Pressure.hPa(P), Temperature.Celsius(T), H+dH).density_ratio
    n+=1
    if b>=a: bad+=1; worst=(T,P,H,dH,a,b)
    f=rnd.uniform(0,0.7); df=rnd.uniform(0.005,0.3)
    a=Atmo(Distance.Foot(alt), Pressure.hPa(P), Temperature.Celsius(T), f).density_ratio
    b=Atmo(Distance.Foot(alt), Pressure.hPa(P), Temperature.Celsius(T), f+df).density_ratio
    if b>=a: bad+=1; worst=(T,P,f,df,a,b)
print(n,bad,worst)
