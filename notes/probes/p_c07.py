import warnings, math, sys, random, time
warnings.simplefilter('ignore')
from py_ballisticcalc import *
rnd=random.Random(1)
slots={'angular':0,'distance':1,'velocity':6,'pressure':4,'temperature':5,'diameter':1,'length':1,'weight':7,'adjustment':0,'drop':1,'energy':3,'ogw':7,'sight_height':1,'target_height':1,'twist':1}
def rand_units():
    for s,d in slots.items():
        setattr(PreferredUnits, s, rnd.choice([u for u in Unit if u//10==d]))
def workload():
    dm=DragModelMultiBC([BCPoint(0.3, V=Velocity.FPS(2500)), BCPoint(0.28, V=Velocity.MPS(400))], TableG7, Weight.Grain(168), Distance.Inch(0.308), Distance.Inch(1.2))
    ammo=Ammo(dm, Velocity.MPS(800), Temperature.Celsius(15), use_powder_sensitivity=True)
    ammo.calc_powder_sens(Velocity.MPS(820), Temperature.Celsius(30))
    atmo=Atmo(Distance.Meter(300), Pressure.hPa(990), Temperature.Celsius(3), 40, Temperature.Celsius(10))
    shot=Shot(Weapon(Distance.Centimeter(9), Distance.Inch(10), Angular.Mil(0)), ammo, Angular.Degree(3), Angular.Mil(1), Angular.Degree(2), atmo, [Wind(Velocity.MPS(4), Angular.OClock(3), Distance.Meter(300)), Wind(Velocity.KMH(10), Angular.Degree(200))])
    c=Calculator()
    z=c.set_weapon_zero(shot, Distance.Meter(200))
    hr=c.fire(shot, Distance.Meter(500), Distance.Meter(50), extra_data=True)
    ds=hr.danger_space(Distance.Meter(300), Distance.Meter(0.5))
    s=Sight('SFP', Distance.Meter(100), Angular.Mil(0.1), Angular.MOA(0.25))
    clicks=s.get_trajectory_adjustment(hr[5], 8)
    out=[z.raw_value, ds.begin.distance.raw_value, ds.end.distance.raw_value, clicks.vertical, clicks.horizontal]
    for r in hr: out += [r.time, r.distance.raw_value, r.velocity.raw_value, r.mach, r.height.raw_value, r.target_drop.raw_value, r.drop_adj.raw_value, r.windage.raw_value, r.windage_adj.raw_value, r.look_distance.raw_value, r.angle.raw_value, r.density_factor, r.drag, r.energy.raw_value, r.ogw.raw_value, r.flag]
    return out
PreferredUnits.defaults(); base=workload()
names=['zero','ds.begin','ds.end','clicks.v','clicks.h']
for k in range(12):
    rand_units(); o=workload()
    diff=[(i, names[i] if i<5 else 'row', a,b) for i,(a,b) in enumerate(zip(base,o)) if a!=b]
    print(k, 'len', len(o)==len(base), 'ndiff', len(diff), diff[:3], 'adj unit', PreferredUnits.adjustment)
PreferredUnits.defaults()
