import warnings, math, sys, random, time
warnings.simplefilter('ignore')
from py_ballisticcalc import *
from gen import rand_shot
rnd=random.Random(int(sys.argv[1]))
c=Calculator()
worst={}
def upd(k,v,info=None):
    if v>worst.get(k,(0,None))[0]: worst[k]=(v,info)
def rel(a,b,floor=1e-12): return abs(a-b)/max(abs(a),abs(b),floor)
for n in range(int(sys.argv[2])):
    shot=rand_shot(rnd)
    rng=rnd.choice([300,1500,4000]); 
    try: rows=c.fire(shot, Distance.Foot(rng), Distance.Foot(rng/7), extra_data=rnd.random()<0.5).trajectory
    except RangeError as e: rows=e.incomplete_trajectory
    L=shot.look_angle>>Angular.Radian
    alt0=shot.atmo.altitude>>Distance.Foot
    w=shot.ammo.dm.weight>>Weight.Grain
    # stability
    tw=shot.weapon.twist>>Distance.Inch; ln=shot.ammo.dm.length>>Distance.Inch; d=shot.ammo.dm.diameter>>Distance.Inch
    mv=shot.ammo.mv>>Velocity.FPS
    if tw and ln and d:
        tr=abs(tw)/d; l=ln/d
        sd=30*w/(tr**2*d**3*l*(1+l**2)); fv=(mv/2800)**(1/3)
        ft=shot.atmo.temperature>>Temperature.Fahrenheit; pt=shot.atmo.pressure>>Pressure.InHg
        sg=sd*fv*((ft+460)/(59+460))*(29.92/pt)
    else: sg=0
    for i,r in enumerate(rows):
        x=r.distance>>Distance.Foot; y=r.height>>Distance.Foot; v=r.velocity>>Velocity.FPS; z=r.windage>>Distance.Foot
        dens,cs=shot.atmo.get_density_factor_and_mach_for_altitude(alt0+y)
        upd('mach', rel(r.mach, v/cs), (i,x,y,r.flag))
        upd('energy', rel(r.energy>>Energy.FootPound, w*v*v/450400))
        upd('ogw', rel(r.ogw>>Weight.Pound, w*w*v**3*1.5e-12))
        upd('target_drop', abs((r.target_drop>>Distance.Foot)-(y-x*math.tan(L))*math.cos(L)))
        upd('look_dist', rel(r.look_distance>>Distance.Foot, x/math.cos(L)))
        exp_da = (math.atan(y/x)-L) if x else 0
        upd('drop_adj', abs((r.drop_adj>>Angular.Radian)-exp_da))
        exp_wa = math.atan(z/x) if x else 0
        upd('wind_adj', abs((r.windage_adj>>Angular.Radian)-exp_wa))
    # spin drift: compare to a twist=0 twin
    import copy
    twin=copy.copy(shot); twin.weapon=Weapon(shot.weapon.sight_height, 0, shot.weapon.zero_elevation)
    try: rows0=c.fire(twin, Distance.Foot(rng), Distance.Foot(rng/7)).trajectory; rows1=c.fire(shot, Distance.Foot(rng), Distance.Foot(rng/7)).trajectory
    except RangeError: continue
    for a,b in zip(rows1,rows0):
        sdft=((a.windage>>Distance.Foot)-(b.windage>>Distance.Foot))
        exp=(1 if tw>0 else -1)*1.25*(sg+1.2)*a.time**1.83/12 if sg and tw else 0
        upd('spin', abs(sdft-exp), (tw,sg,a.time))
for k,v in worst.items(): print(k,v)
