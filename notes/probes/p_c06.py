import warnings, math, itertools
warnings.simplefilter('ignore')
from py_ballisticcalc import *
from fractions import Fraction as F
# independent SI definitions: value of 1 unit in SI base
inch=F(254,10000)
SI = {
 Unit.Inch: inch, Unit.Foot: 12*inch, Unit.Yard: 36*inch, Unit.Mile: 63360*inch, Unit.NauticalMile: F(1852),
 Unit.Millimeter: F(1,1000), Unit.Centimeter: F(1,100), Unit.Meter: F(1), Unit.Kilometer: F(1000), Unit.Line: inch/10,
 Unit.FootPound: None, Unit.Joule: F(1),
 Unit.MmHg: F(133322387415,10**9), Unit.InHg: None, Unit.Bar: F(100000), Unit.hPa: F(100), Unit.PSI: None,
 Unit.MPS: F(1), Unit.KMH: F(1000,3600), Unit.FPS: 12*inch, Unit.MPH: 63360*inch/3600, Unit.KT: F(1852,3600),
 Unit.Grain: F(6479891,10**11), Unit.Gram: F(1,1000), Unit.Kilogram: F(1), Unit.Pound: F(45359237,10**8), Unit.Ounce: F(45359237,10**8)/16, Unit.Newton: None,
}
g0=F(980665,100000)
lb=F(45359237,10**8)
SI[Unit.FootPound]= lb*g0*12*inch
SI[Unit.InHg]= SI[Unit.MmHg]*F(254,10)
SI[Unit.PSI]= lb*g0/(inch*inch)
SI[Unit.Newton]= 1/g0  # kg-force-equivalent mass of 1 N weight
dims = {Distance:[u for u in Unit if 10<=u<20], Pressure:[u for u in Unit if 40<=u<50], Weight:[u for u in Unit if 70<=u<80], Velocity:[u for u in Unit if 60<=u<70], Energy:[u for u in Unit if 30<=u<40]}
worst=[]
for D,us in dims.items():
    for a,b in itertools.permutations(us,2):
        got = D(1.0,a) >> b
        exp = float(SI[a]/SI[b])
        rel = abs(got-exp)/exp
        worst.append((rel,a,b,got,exp))
worst.sort(reverse=True)
for w in worst[:15]: print(w)
