"""Independent reference integrator of the 3-DoF point-mass model (RK4, small step, exact wind-boundary landing)."""
import math
from py_ballisticcalc import *

G = 32.17405

def ref_trajectory(calc, shot, xs, h=0.05, gravity=-G, tmax=400.0):
    """Return dict x -> (t, x, y, z, vx, vy, vz) at each x in xs (feet), None when not reached."""
    tc = calc._calc
    tc._init_trajectory(shot)     # only to get drag_by_mach wired for this shot's table/BC
    dbm = tc.drag_by_mach
    atmo = shot.atmo
    alt0 = shot.atmo.altitude >> Distance.Foot
    look = shot.look_angle >> Angular.Radian
    cant = shot.cant_angle >> Angular.Radian
    ze = shot.weapon.zero_elevation >> Angular.Radian
    rel = shot.relative_angle >> Angular.Radian
    sh = shot.weapon.sight_height >> Distance.Foot
    el = look + math.cos(cant) * (ze + rel)
    az = math.sin(cant) * (ze + rel)
    mv = shot.ammo.get_velocity_for_temp(shot.atmo.powder_temp) >> Velocity.FPS
    winds = sorted(shot._winds, key=lambda w: w.until_distance.raw_value)
    segs = []
    for w in winds:
        spd = w.velocity >> Velocity.FPS; d = w.direction_from >> Angular.Radian
        segs.append(((w.until_distance >> Distance.Foot), (spd * math.cos(d), 0.0, spd * math.sin(d))))
    def wind_at(idx):
        return segs[idx][1] if idx < len(segs) else (0.0, 0.0, 0.0)
    def acc(y, v, w):
        dens, c = atmo.get_density_factor_and_mach_for_altitude(alt0 + y)
        ax, ay, az_ = v[0] - w[0], v[1] - w[1], v[2] - w[2]
        s = math.sqrt(ax * ax + ay * ay + az_ * az_)
        k = dens * s * dbm(s / c)
        return (-k * ax, -k * ay + gravity, -k * az_)
    def rk4(p, v, w, dt):
        def f(p_, v_):
            return v_, acc(p_[1], v_, w)
        k1p, k1v = f(p, v)
        k2p, k2v = f(tuple(p[i] + 0.5 * dt * k1p[i] for i in range(3)), tuple(v[i] + 0.5 * dt * k1v[i] for i in range(3)))
        k3p, k3v = f(tuple(p[i] + 0.5 * dt * k2p[i] for i in range(3)), tuple(v[i] + 0.5 * dt * k2v[i] for i in range(3)))
        k4p, k4v = f(tuple(p[i] + dt * k3p[i] for i in range(3)), tuple(v[i] + dt * k3v[i] for i in range(3)))
        pn = tuple(p[i] + dt / 6 * (k1p[i] + 2 * k2p[i] + 2 * k3p[i] + k4p[i]) for i in range(3))
        vn = tuple(v[i] + dt / 6 * (k1v[i] + 2 * k2v[i] + 2 * k3v[i] + k4v[i]) for i in range(3))
        return pn, vn
    p = (0.0, -math.cos(cant) * sh, -math.sin(cant) * sh)
    v = (mv * math.cos(el) * math.cos(az), mv * math.sin(el), mv * math.cos(el) * math.sin(az))
    t = 0.0
    widx = 0
    while widx < len(segs) and p[0] >= segs[widx][0]:
        widx += 1
    out = {}
    xs = sorted(xs)
    xi = 0
    while xi < len(xs) and xs[xi] <= 0.0:
        out[xs[xi]] = (t,) + p + v; xi += 1
    while xi < len(xs) and t < tmax:
        w = wind_at(widx)
        s = math.sqrt((v[0] - w[0]) ** 2 + (v[1] - w[1]) ** 2 + (v[2] - w[2]) ** 2)
        dt = h / max(1.0, s)
        # next x-boundary of interest
        nb = xs[xi]
        if widx < len(segs) and segs[widx][0] < nb:
            nb = segs[widx][0]
        pn, vn = rk4(p, v, w, dt)
        if pn[0] >= nb and pn[0] > p[0]:
            # land on boundary: secant on dt
            lo, hi = 0.0, dt
            for _ in range(40):
                mid = lo + (hi - lo) * (nb - (rk4(p, v, w, lo)[0][0] if lo else p[0])) / max(1e-300, (rk4(p, v, w, hi)[0][0] - (rk4(p, v, w, lo)[0][0] if lo else p[0])))
                pm, vm = rk4(p, v, w, mid)
                if abs(pm[0] - nb) < 1e-12 * max(1.0, abs(nb)):
                    break
                if pm[0] < nb: lo = mid
                else: hi = mid
            p, v, t = pm, vm, t + mid
            if xi < len(xs) and nb == xs[xi]:
                out[xs[xi]] = (t,) + p + v; xi += 1
            while widx < len(segs) and p[0] >= segs[widx][0] - 1e-12 * max(1.0, abs(segs[widx][0])):
                widx += 1
            continue
        if vn[0] <= 0 and pn[0] < nb:
            # moving backwards: stop
            break
        p, v, t = pn, vn, t + dt
    for x in xs[xi:]:
        out[x] = None
    return out
