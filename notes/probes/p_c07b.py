import warnings, math, sys, random
warnings.simplefilter('ignore')
import logging; logging.getLogger('py_balcalc').setLevel(logging.ERROR)
from py_ballisticcalc import *
rnd=random.Random(1)
slots={'angular':0,'distance':1,'velocity':6,'pressure':4,'temperature':5,'diameter':1,'length':1,'weight':7,'adjustment':0,'drop':1,'energy':3,'ogw':7,'sight_height':1,'target_height':1,'twist':1}
def rand_units():
    for s,d in slots.items():
        setattr(PreferredUnits, s, rnd.choice([u for u in Unit if u//10==d]))
def snap(o, depth=0):
    if isinstance(o, AbstractDimension): return ('Q', type(o).__name__, float(o.raw_value).hex())
    if isinstance(o, float): return o.hex()
    if isinstance(o,(int,str,bool,type(None))): return o
    if isinstance(o,(list,tuple)): return [snap(x) for x in o]
    if isinstance(o,dict): return {k:snap(v) for k,v in o.items()}
    d={}
    for k in sorted(getattr(o,'__dict__',{}) or {}): d[k]=snap(getattr(o,k))
    return (type(o).__name__, d)
dm=lambda: DragModel(0.3, TableG7)
ammo=lambda: Ammo(dm(), Velocity.FPS(2600))
def mkshot(): return Shot(Weapon(Distance.Inch(2)), ammo())
calc=Calculator()
def hr(): return calc.fire(mkshot(), Distance.Yard(300), Distance.Yard(30), extra_data=True)
HR=None
sites={
 'Atmo.altitude': ('distance', lambda v: Atmo(altitude=v)),
 'Atmo.pressure': ('pressure', lambda v: Atmo(pressure=v)),
 'Atmo.temperature': ('temperature', lambda v: Atmo(temperature=v)),
 'Atmo.powder_t': ('temperature', lambda v: Atmo(powder_t=v)),
 'Atmo.icao.altitude': ('distance', lambda v: Atmo.icao(v)),
 'Vacuum.altitude': ('distance', lambda v: Vacuum(v)),
 'Vacuum.temperature': ('temperature', lambda v: Vacuum(None, v)),
 'Wind.velocity': ('velocity', lambda v: Wind(v, Angular.Degree(90), Distance.Yard(100))),
 'Wind.direction': ('angular', lambda v: Wind(Velocity.FPS(5), v, Distance.Yard(100))),
 'Wind.until': ('distance', lambda v: Wind(Velocity.FPS(5), Angular.Degree(90), v)),
 'Shot.look': ('angular', lambda v: Shot(Weapon(), ammo(), look_angle=v)),
 'Shot.relative': ('angular', lambda v: Shot(Weapon(), ammo(), relative_angle=v)),
 'Shot.cant': ('angular', lambda v: Shot(Weapon(), ammo(), cant_angle=v)),
 'Weapon.sight_height': ('sight_height', lambda v: Weapon(sight_height=v)),
 'Weapon.twist': ('twist', lambda v: Weapon(twist=v)),
 'Weapon.zero_elevation': ('angular', lambda v: Weapon(zero_elevation=v)),
 'Ammo.mv': ('velocity', lambda v: Ammo(dm(), v)),
 'Ammo.powder_temp': ('temperature', lambda v: Ammo(dm(), Velocity.FPS(2600), v)),
 'Ammo.calc_powder_sens.v': ('velocity', lambda v: Ammo(dm(), Velocity.FPS(2600), Temperature.Celsius(15)).calc_powder_sens(v, Temperature.Celsius(0))),
 'Ammo.calc_powder_sens.t': ('temperature', lambda v: Ammo(dm(), Velocity.FPS(2600), Temperature.Celsius(15)).calc_powder_sens(Velocity.FPS(2500), v)),
 'Ammo.get_velocity_for_temp': ('temperature', lambda v: Ammo(dm(), Velocity.FPS(2600), Temperature.Celsius(15), 0.02, True).get_velocity_for_temp(v)),
 'Sight.scale_factor.FFP': ('distance', lambda v: Sight('FFP', v, Angular.Mil(0.1), Angular.Mil(0.1))),
 'Sight.scale_factor.SFP': ('distance', lambda v: Sight('SFP', v, Angular.Mil(0.1), Angular.Mil(0.1))),
 'Sight.h_click': ('adjustment', lambda v: Sight('FFP', None, v, Angular.Mil(0.1))),
 'Sight.v_click': ('adjustment', lambda v: Sight('FFP', None, Angular.Mil(0.1), v)),
 'Sight.sfp.target_distance': ('distance', lambda v: Sight('SFP', Distance.Meter(100), Angular.Mil(0.1), Angular.Mil(0.2))._adjust_sfp_reticle_steps(v, 10)),
 'DragModel.weight': ('weight', lambda v: DragModel(0.3, TableG7, v, Distance.Inch(0.3), Distance.Inch(1))),
 'DragModel.diameter': ('diameter', lambda v: DragModel(0.3, TableG7, Weight.Grain(100), v, Distance.Inch(1))),
 'DragModel.length': ('length', lambda v: DragModel(0.3, TableG7, Weight.Grain(100), Distance.Inch(0.3), v)),
 'MultiBC.weight': ('weight', lambda v: DragModelMultiBC([BCPoint(0.3, Mach=2)], TableG7, v, Distance.Inch(0.3))),
 'MultiBC.diameter': ('diameter', lambda v: DragModelMultiBC([BCPoint(0.3, Mach=2)], TableG7, Weight.Grain(100), v)),
 'BCPoint.V': ('velocity', lambda v: BCPoint(0.3, V=v)),
 'Calc.zero.distance': ('distance', lambda v: calc.barrel_elevation_for_target(mkshot(), v)),
 'Calc.fire.range': ('distance', lambda v: [r for r in calc.fire(mkshot(), v, Distance.Yard(50))]),
 'Calc.fire.step': ('distance', lambda v: [r for r in calc.fire(mkshot(), Distance.Yard(200), v)]),
 'HitResult.danger.at_range': ('distance', lambda v: HR.danger_space(v, Distance.Inch(10))),
 'HitResult.danger.height': ('distance', lambda v: HR.danger_space(Distance.Yard(200), v)),
 'HitResult.danger.look': ('angular', lambda v: HR.danger_space(Distance.Yard(200), Distance.Inch(10), v)),
 'set_global_step': ('distance', lambda v: (set_global_max_calc_step_size(v), get_global_max_calc_step_size(), reset_globals())[1]),
}
vals=[0, -0.0, 1, -3.5, 1e-3, 250.0, 0.5, 90]
res={}
for rep in range(3):
    rand_units() if rep else PreferredUnits.defaults()
    HR=hr()
    for name,(slot,f) in sites.items():
        for v in vals:
            u=getattr(PreferredUnits, slot)
            def run(arg):
                try: return ('ok', snap(f(arg)))
                except Exception as e: return ('exc', type(e).__name__)
            a=run(v); b=run(u(v))
            if a!=b:
                res.setdefault(name,[]).append((v, repr(u), a[0], a[1] if a[0]=='exc' else '', b[0], b[1] if b[0]=='exc' else ''))
PreferredUnits.defaults()
for k,v in res.items(): print(k, v[:4])
print('sites', len(sites), 'mismatching', len(res))
