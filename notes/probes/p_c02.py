import warnings, math, time, sys, random
warnings.simplefilter('ignore')
from py_ballisticcalc import *
dm = DragModel(0.22, TableG7, 168, 0.308, 1.22)
c=Calculator()
for look in [0, 5, 30, -30, 55]:
  for zd in [25, 100, 600]:
    shot = Shot(weapon=Weapon(Distance.Inch(2), 12), ammo=Ammo(dm, Velocity.FPS(2600)), look_angle=Angular.Degree(look))
    try:
        ze = c.set_weapon_zero(shot, Distance.Yard(zd))
    except Exception as e:
        print(look, zd, 'ERR', repr(e)); continue
    hx = Distance.Yard(zd*math.cos(math.radians(look)))
    hr = c.fire(shot, hx, hx, extra_data=False)
    row = hr[-1]
    # slope relative to sight line
    rel_slope = math.tan((row.angle>>Angular.Radian) - math.radians(look))
    print(f'look {look:4} zd {zd:4} zero_el {ze>>Angular.Mil:8.3f} mil  row.dist {row.distance>>Distance.Yard:9.4f} look_dist {row.look_distance>>Distance.Yard:9.4f} target_drop {row.target_drop>>Distance.Inch:9.5f} in; rel slope {rel_slope:.5f} bound(in) {(5e-6+0.5*abs(rel_slope))*12:.5f}')
