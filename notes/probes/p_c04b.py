import warnings, math, sys, random, time
warnings.simplefilter('ignore')
from py_ballisticcalc import *
from py_ballisticcalc.conditions import Atmo as A
from gen import rand_shot
CNT=[0]
orig=A.get_density_factor_and_mach_for_altitude
def w(self, alt): CNT[0]+=1; return orig(self, alt)
A.get_density_factor_and_mach_for_altitude=w
G=32.17405
def path_inf(calc, shot, cfg, h=1.0, cap=3e6):
    tc=calc._calc; tc._init_trajectory(shot); dbm=tc.drag_by_mach; atmo=shot.atmo
    alt0=atmo.altitude>>Distance.Foot
    look=shot.look_angle>>Angular.Radian; cant=shot.cant_angle>>Angular.Radian
    ze=shot.weapon.zero_elevation>>Angular.Radian; rel=shot.relative_angle>>Angular.Radian; sh=shot.weapon.sight_height>>Distance.Foot
    el=look+math.cos(cant)*(ze+rel); az=math.sin(cant)*(ze+rel)
    mv=shot.ammo.get_velocity_for_temp(atmo.powder_temp)>>Velocity.FPS
    segs=sorted(((wd.until_distance>>Distance.Foot), (lambda s,d:(s*math.cos(d),0.0,s*math.sin(d)))(wd.velocity>>Velocity.FPS, wd.direction_from>>Angular.Radian)) for wd in shot._winds)
    p=[0.0,-math.cos(cant)*sh,-math.sin(cant)*sh]; v=[mv*math.cos(el)*math.cos(az), mv*math.sin(el), mv*math.cos(el)*math.sin(az)]
    P=0.0; t=0.0
    def wind(x):
        for u,vec in segs:
            if x<u: return vec
        return (0.0,0.0,0.0)
    def acc(y,v,wv):
        dens,c=orig(atmo, alt0+y); a=[v[0]-wv[0],v[1]-wv[1],v[2]-wv[2]]; s=math.sqrt(a[0]**2+a[1]**2+a[2]**2); k=dens*s*dbm(s/c)
        return [-k*a[0],-k*a[1]-G,-k*a[2]], s
    while P<cap:
        wv=wind(p[0]); a1,s=acc(p[1],v,wv); dt=h/max(1.0,s)
        # RK2 midpoint is enough for a path-length estimate
        vm=[v[i]+0.5*dt*a1[i] for i in range(3)]; pm=[p[i]+0.5*dt*v[i] for i in range(3)]
        a2,s2=acc(pm[1],vm,wv)
        p=[p[i]+dt*vm[i] for i in range(3)]; v=[v[i]+dt*a2[i] for i in range(3)]
        P+=s2*dt; t+=dt
        sp=math.sqrt(v[0]**2+v[1]**2+v[2]**2)
        if sp<cfg['cMinimumVelocity'] or p[1]<cfg['cMaximumDrop'] or alt0+p[1]<cfg['cMinimumAltitude']: return P
    return None
rnd=random.Random(int(sys.argv[1])); worst=0; n=0; skipped=0
for i in range(int(sys.argv[2])):
    shot=rand_shot(rnd)
    if rnd.random()<0.3: shot.relative_angle=Angular.Degree(rnd.choice([90,89.99,rnd.uniform(45,90),rnd.uniform(-90,-10)]))
    if rnd.random()<0.1: shot.ammo.mv=Velocity.FPS(rnd.choice([0,1,30,49,51]))
    alt0=shot.atmo.altitude>>Distance.Foot
    cfg={'cMinimumVelocity': rnd.choice([0,50,300,1000]), 'cMaximumDrop': rnd.choice([-15000,-1000,-50,0]), 'cMinimumAltitude': rnd.choice([-1410.748, alt0-100, alt0-5, 0])}
    calc=Calculator(_config=cfg)
    t0=time.time(); P=path_inf(calc, shot, cfg); tr=time.time()-t0
    if P is None: skipped+=1; continue
    budget=1.5*P/0.25+1000
    CNT[0]=0
    R=rnd.choice([300,3000,30000])
    try: calc.fire(shot, Distance.Foot(R), Distance.Foot(R/5))
    except RangeError: pass
    n+=1; ratio=CNT[0]/budget
    if ratio>worst: worst=ratio; arg=(CNT[0],budget,P,cfg,R)
print('n',n,'skipped',skipped,'worst steps/budget',worst,arg)
