import warnings, math, sys, random, time, copy
warnings.simplefilter('ignore')
from py_ballisticcalc import *
from py_ballisticcalc.trajectory_calc import _trajectory_calc as tcm
from gen import rand_shot
TRACE=[]
orig=tcm._TrajectoryDataFilter.should_record
def wrapped(self, position, velocity, mach, time):
    TRACE.append((time, position, velocity)); return orig(self, position, velocity, mach, time)
tcm._TrajectoryDataFilter.should_record=wrapped
rnd=random.Random(2)
worst=0; slow=0; nsteps=0; worst_slow=0
for n in range(40):
    shot=rand_shot(rnd)
    if n%5==0: shot.relative_angle=Angular.Degree(rnd.choice([90,89.99,90.0])); shot.ammo.mv=Velocity.FPS(rnd.uniform(100,400))
    if n%7==0: shot.ammo.mv=Velocity.FPS(0)
    h=rnd.choice([0.1,0.5,2.0]); c=Calculator(_config={'max_calc_step_size_feet':h, 'cMinimumVelocity':0, 'cMaximumDrop':-2000})
    TRACE.clear()
    try: c.fire(shot, Distance.Foot(600), Distance.Foot(100))
    except RangeError: pass
    segs=sorted(((w.until_distance>>Distance.Foot), w.vector) for w in shot.winds)
    for (t0,p0,v0),(t1,p1,v1) in zip(TRACE,TRACE[1:]):
        dt=t1-t0
        # wind in force at p0 (approx: segment containing p0.x)
        w=next((vec for u,vec in segs if p0.x<u), None)
        wx,wz=(w.x,w.z) if w else (0.0,0.0)
        adv=math.sqrt((p1.x-p0.x-wx*dt)**2+(p1.y-p0.y)**2+(p1.z-p0.z-wz*dt)**2)
        vair=math.sqrt((v0.x-wx)**2+v0.y**2+(v0.z-wz)**2)
        nsteps+=1
        if vair<2.0: slow+=1; worst_slow=max(worst_slow, adv/h)
        else: worst=max(worst, adv/h)
print('steps',nsteps,'worst adv/max (v_air>=2fps)',worst,'slow steps',slow,'worst slow',worst_slow)
