import warnings, math, sys, random
warnings.simplefilter('ignore')
from py_ballisticcalc import *
rnd=random.Random(5)
c=Calculator()
dm=DragModel(0.3, TableG1)
miss=0; tot=0
for n in range(400):
    mv=rnd.uniform(400,1200)
    shot=Shot(weapon=Weapon(0,0,Angular.Degree(rnd.uniform(0,3))), ammo=Ammo(dm, Velocity.FPS(mv)), winds=[Wind(Velocity.MPH(rnd.uniform(20,60)), Angular.Degree(rnd.uniform(-20,20)))])
    R=rnd.uniform(30,300); 
    try: hr=c.fire(shot, Distance.Foot(R), Distance.Foot(R/3))
    except RangeError: continue
    tot+=1
    if len(hr.trajectory)!=4:
        miss+=1
        if miss<6: print('rows',len(hr.trajectory), [round(r.distance>>Distance.Foot,3) for r in hr], 'R',R, 'mv',mv, 'wind', shot.winds[0].velocity>>Velocity.FPS)
print('tot',tot,'missing-last',miss)
