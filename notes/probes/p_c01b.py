import warnings, math, time, sys, random
warnings.simplefilter('ignore')
import py_ballisticcalc as pb
from py_ballisticcalc import *
from refsolve import ref_trajectory
seed=int(sys.argv[1]); random.seed(seed)
tables=['TableG1','TableG7','TableG2','TableG5','TableG6','TableG8','TableGI','TableGS','TableRA4']
def rand_shot():
    tbl=getattr(pb, random.choice(tables))
    bc=random.choice([random.uniform(0.05,0.2), random.uniform(0.2,0.7), random.uniform(0.7,1.2)])
    dm=DragModel(bc, tbl, random.uniform(50,750), random.uniform(0.2,0.6), random.uniform(0.5,2.5))
    mv=random.choice([random.uniform(300,1100), random.uniform(1100,3500)])
    look=random.choice([0,0,random.uniform(-45,45)])
    ze=random.uniform(-1,3)
    rel=random.choice([0, random.uniform(-2,10), random.uniform(0,40)])
    cant=random.choice([0,0,random.uniform(-90,90)])
    atmo=random.choice([Atmo.icao(), Atmo.icao(Distance.Foot(random.uniform(-1000,12000))), Atmo(Distance.Foot(random.uniform(0,9000)), Pressure.hPa(random.uniform(600,1050)), Temperature.Celsius(random.uniform(-30,45)), random.uniform(0,100))])
    nw=random.choice([0,1,2,3])
    winds=[Wind(Velocity.MPH(random.uniform(0,40)), Angular.Degree(random.uniform(0,360)), Distance.Yard(random.uniform(30,1500))) for _ in range(nw)]
    if nw and random.random()<0.5: winds[-1]=Wind(winds[-1].velocity, winds[-1].direction_from)
    sh=random.choice([0, random.uniform(-2,5)])
    return Shot(weapon=Weapon(Distance.Inch(sh), random.choice([0,10,-9]), Angular.Degree(ze)), ammo=Ammo(dm, Velocity.FPS(mv)),
                look_angle=Angular.Degree(look), relative_angle=Angular.Degree(rel), cant_angle=Angular.Degree(cant), atmo=atmo, winds=winds)
c=Calculator()
stats=[]
for n in range(int(sys.argv[2])):
    shot=rand_shot()
    rng=random.choice([300, 900, 1800, 3000, 4500])
    step=rng/6
    outs={}
    try:
        for h in [0.5,0.25,0.125]:
            outs[h]=Calculator(_config={'max_calc_step_size_feet':h}).fire(shot, Distance.Foot(rng), Distance.Foot(step))
    except RangeError as e:
        print(n,'RangeError',e.reason); continue
    xs=[row.distance>>Distance.Foot for row in outs[0.5]]
    t0=time.time()
    ra=ref_trajectory(c, shot, xs, h=0.05); rb=ref_trajectory(c, shot, xs, h=0.1)
    # strip spin drift from windage
    tc=c._calc; tc._init_trajectory(shot)
    worst={}
    for k,x in enumerate(xs):
        if ra[x] is None: continue
        ref=ra[x]; refb=rb[x]
        refq={'y':ref[2],'z':ref[3],'v':math.sqrt(ref[4]**2+ref[5]**2+ref[6]**2),'t':ref[0]}
        refqb={'y':refb[2],'z':refb[3],'v':math.sqrt(refb[4]**2+refb[5]**2+refb[6]**2),'t':refb[0]}
        def q(row):
            return {'y':row.height>>Distance.Foot,'z':(row.windage>>Distance.Foot)-tc.spin_drift(row.time),'v':row.velocity>>Velocity.FPS,'t':row.time}
        q1=q(outs[0.5][k]); q2=q(outs[0.25][k]); q4=q(outs[0.125][k])
        for name in 'yzvt':
            e1=abs(q1[name]-refq[name]); e2=abs(q2[name]-refq[name]); e4=abs(q4[name]-refq[name]); d=abs(q1[name]-q2[name]); es=abs(refq[name]-refqb[name])
            w=worst.setdefault(name,[0,0,0,0,0])
            w[0]=max(w[0],e1); w[1]=max(w[1], e1-3*d); w[2]=max(w[2], e2-0.75*e1); w[3]=max(w[3], es); w[4]=max(w[4], e4-0.75*e2)
    print(n, rng, 'look',round(shot.look_angle>>Angular.Degree,1),'rel',round(shot.relative_angle>>Angular.Degree,1),'cant',round(shot.cant_angle>>Angular.Degree,1),'mv',round(shot.ammo.mv>>Velocity.FPS), 'nw',len(shot._winds), {k:['%.1e'%x for x in v] for k,v in worst.items()}, 'tref %.1f'%(time.time()-t0))
