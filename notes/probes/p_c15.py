import warnings, math, sys, random, time, copy
warnings.simplefilter('ignore')
from py_ballisticcalc import *
from py_ballisticcalc.trajectory_calc import _trajectory_calc as tcm
from gen import rand_shot
TRACE=[]
orig=tcm._TrajectoryDataFilter.should_record
def wrapped(self, position, velocity, mach, time):
    data=orig(self, position, velocity, mach, time)
    TRACE.append((time, position, velocity, mach, self.current_flag, data is not None))
    return data
tcm._TrajectoryDataFilter.should_record=wrapped
rnd=random.Random(int(sys.argv[1]))
c=Calculator()
stats={'shots':0,'up':0,'down':0,'mach':0,'bad':0}
for n in range(int(sys.argv[2])):
    shot=rand_shot(rnd)
    if rnd.random()<0.5:
        try: c.set_weapon_zero(shot, Distance.Yard(rnd.uniform(25,400)))
        except Exception: pass
    R=rnd.choice([300,1500,4500]); S=R/rnd.choice([3,10])
    TRACE.clear()
    try: rows=c.fire(shot, Distance.Foot(R), Distance.Foot(S), extra_data=True).trajectory
    except RangeError as e: rows=e.incomplete_trajectory
    L=shot.look_angle>>Angular.Radian
    pts=list(TRACE)
    h=[p[1].y-p[1].x*math.tan(L) for p in pts]
    # spec crossings
    up=None; down=None
    start_above = h[0]>=0
    for i in range(1,len(pts)):
        if pts[i][1].x<=0: continue
        if not start_above and up is None:
            if h[i]>=0: up=i
        elif down is None and (start_above or up is not None):
            if h[i]<0: down=i
    machs=[i for i in range(1,len(pts)) if pts[i-1][2].magnitude()/pts[i-1][3] > 1 >= pts[i][2].magnitude()/pts[i][3]]
    fu=[r for r in rows if r.flag & TrajFlag.ZERO_UP]; fd=[r for r in rows if r.flag & TrajFlag.ZERO_DOWN]; fm=[r for r in rows if r.flag & TrajFlag.MACH]
    probs=[]
    if len(fu)!=(up is not None): probs.append(('up count',len(fu),up, h[0]))
    if len(fd)!=(down is not None): probs.append(('down count',len(fd),down,h[0], start_above, shot.barrel_elevation>>Angular.Radian, L))
    if len(fm)!=len(machs): probs.append(('mach count',len(fm),len(machs)))
    def near(row,i):
        return pts[i-1][0]-1e-12 <= row.time <= pts[i][0]+1e-12
    if fu and up and not near(fu[0],up): probs.append('up loc')
    if fd and down and not near(fd[0],down): probs.append('down loc')
    for r,i in zip(fm,machs):
        if not near(r,i): probs.append('mach loc')
    ts=[r.time for r in rows]
    if any(b<a for a,b in zip(ts,ts[1:])): probs.append('time order')
    stats['shots']+=1; stats['up']+=len(fu); stats['down']+=len(fd); stats['mach']+=len(fm)
    if probs: stats['bad']+=1; print(n, probs[:3], 'sh', shot.weapon.sight_height>>Distance.Inch, 'cant', shot.cant_angle>>Angular.Degree)
print(stats)
