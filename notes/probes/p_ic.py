import sys, warnings, time, math
sys.path.insert(0,'/tmp/probe/deps')
warnings.simplefilter('ignore')
import icontract
from py_ballisticcalc import *
from py_ballisticcalc.trajectory_calc import _trajectory_calc as tcm
class RowContractBroken(Exception): pass
EVALS=[0]; BAD=[]
def energy_ok(weight, velocity, result):
    EVALS[0]+=1
    exp=weight*velocity*velocity/450400
    ok=abs((result.energy>>Energy.FootPound)-exp)<=1e-12*max(1,abs(exp))
    if not ok: BAD.append(('energy',exp,result.energy>>Energy.FootPound))
    return True
def target_drop_ok(range_vector, look_angle, result):
    exp=(range_vector.y-range_vector.x*math.tan(look_angle))*math.cos(look_angle)
    ok=abs((result.target_drop>>Distance.Foot)-exp)<=1e-9*max(1,abs(exp))
    if not ok: BAD.append(('target_drop',exp))
    return True
wrapped=icontract.ensure(energy_ok, error=RowContractBroken)(icontract.ensure(target_drop_ok, error=RowContractBroken)(tcm.create_trajectory_row))
orig=tcm.create_trajectory_row
dm = DragModel(0.22, TableG7, 168, 0.308, 1.22)
shot = Shot(weapon=Weapon(2, 12), ammo=Ammo(dm, Velocity.FPS(2600)), look_angle=Angular.Degree(5))
c=Calculator()
t=time.time(); r=c.fire(shot, Distance.Yard(1000), Distance.Yard(1), extra_data=True); t0=time.time()-t
tcm.create_trajectory_row=wrapped
t=time.time(); r=c.fire(shot, Distance.Yard(1000), Distance.Yard(1), extra_data=True); t1=time.time()-t
print('rows',len(r.trajectory),'evals',EVALS[0],'bad',len(BAD),'plain %.3f s contract %.3f s'%(t0,t1))
