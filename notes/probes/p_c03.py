import warnings, math, sys, random
warnings.simplefilter('ignore')
from py_ballisticcalc import *
from gen import rand_shot
rnd=random.Random(int(sys.argv[1]))
c=Calculator()
bad=0; n_ok=0
for n in range(int(sys.argv[2])):
    shot=rand_shot(rnd)
    rng_ft=rnd.choice([rnd.uniform(3,60), rnd.uniform(60,1500), rnd.uniform(1500,6000)])
    k=rnd.choice([1,2,3,7,10,rnd.uniform(1,25)])
    step_ft=max(0.5, rng_ft/k) if rnd.random()<0.8 else rnd.uniform(0.5, rng_ft)
    unit=rnd.choice([Distance.Foot, Distance.Yard, Distance.Meter, Distance.Inch, Distance.Kilometer])
    R=Distance.Foot(rng_ft); R=unit(R>>unit); S=unit(Distance.Foot(step_ft)>>unit)
    nostep = rnd.random()<0.15
    try:
        hr = c.fire(shot, R) if nostep else c.fire(shot, R, S)
    except RangeError as e:
        continue
    rows=hr.trajectory
    Rf=R>>Distance.Foot; Sf=(Rf/10) if nostep else (S>>Distance.Foot)
    nexp=int(math.floor(Rf/Sf*(1+1e-12)+1e-9))+1
    ds=[r.distance>>Distance.Foot for r in rows]
    problems=[]
    if not (len(rows)==nexp or len(rows)==nexp+1): problems.append(('count',len(rows),nexp))
    for i,d in enumerate(ds):
        if abs(d-i*Sf)>1e-9*max(1,abs(i*Sf)): problems.append(('dist',i,d,i*Sf)); break
    if len(rows)==nexp+1 and ds[-1]>Rf+0.5+1e-9: problems.append(('extra beyond',ds[-1],Rf))
    if any(b<=a for a,b in zip(ds,ds[1:])): problems.append('nonincreasing d')
    ts=[r.time for r in rows]
    if any(b<=a for a,b in zip(ts,ts[1:])): problems.append('nonincreasing t')
    if rows[0].time!=0: problems.append('t0')
    n_ok+=1
    if problems:
        bad+=1
        print(n, 'rng',Rf,'step',Sf,'nostep',nostep,'rows',len(rows),'exp',nexp, problems[:3], 'mv',shot.ammo.mv>>Velocity.FPS,'winds',[(w.velocity>>Velocity.FPS, w.direction_from>>Angular.Degree) for w in shot.winds])
print('checked',n_ok,'bad',bad)
