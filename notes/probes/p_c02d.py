import warnings, math, time, sys, random
warnings.simplefilter('ignore')
import py_ballisticcalc as pb
from py_ballisticcalc import *
seed=int(sys.argv[1]); random.seed(seed)
tables=['TableG1','TableG7','TableG2','TableG5','TableG6','TableG8','TableGI','TableGS','TableRA4']
c=Calculator()
fails=0; viol=0; n_ok=0; worst=0; unreach=0
def drop_at(shot, el_deg, hx):
    s=Shot(weapon=Weapon(shot.weapon.sight_height,0,Angular.Degree(el_deg)), ammo=shot.ammo, look_angle=shot.look_angle, winds=list(shot._winds), atmo=shot.atmo)
    try: return c.fire(s,hx,hx)[-1].target_drop>>Distance.Foot
    except RangeError: return None
def reachable(shot, hx):
    prev=None
    for k in range(0, 46*4):
        el=-5+k*0.25
        d=drop_at(shot, el, hx)
        if d is None: prev=None; continue
        if prev is not None and prev[1]<0<=d: return (prev[0], el)
        prev=(el,d)
    return None
for n in range(int(sys.argv[2])):
    tbl=getattr(pb, random.choice(tables))
    dm=DragModel(random.uniform(0.1,0.9), tbl)
    mv=random.choice([random.uniform(600,1100), random.uniform(1100,3500)])
    look=random.choice([0,random.uniform(-59,59),random.uniform(-59,59)])
    sh=random.choice([0, random.uniform(-2,5)])
    nw=random.choice([0,0,1,2])
    winds=[Wind(Velocity.MPH(random.uniform(0,40)), Angular.Degree(random.uniform(0,360)), Distance.Yard(random.uniform(30,1500))) for _ in range(nw)]
    stored=random.choice([0,0,random.uniform(-2,2), random.uniform(-20,20)])
    zd=random.choice([random.uniform(5,50), random.uniform(50,600), random.uniform(600,1500)])
    shot=Shot(weapon=Weapon(Distance.Inch(sh), 0, Angular.Degree(stored)), ammo=Ammo(dm, Velocity.FPS(mv)), look_angle=Angular.Degree(look), winds=winds)
    hx = Distance.Yard(zd*math.cos(math.radians(look)))
    pre=Shot(weapon=Weapon(Distance.Inch(sh), 0, 0), ammo=shot.ammo, look_angle=shot.look_angle, winds=winds)
    try: c.fire(pre, hx, hx)
    except RangeError: continue
    try:
        ze = c.set_weapon_zero(shot, Distance.Yard(zd))
    except Exception as e:
        r=reachable(shot,hx)
        if r is None: unreach+=1
        else:
            fails+=1; print(n,'FAIL', type(e).__name__, str(e)[:60], 'look %.1f zd %.0f mv %.0f stored %.1f bc %.2f'%(look,zd,mv,stored,dm.BC), 'bracket', r)
        continue
    hr = c.fire(shot, hx, hx)
    row = hr[-1]
    ang=row.angle>>Angular.Radian
    rel = ang - math.radians(look)
    smax=(0.25+0.25*1.15)/max(0.05,math.cos(ang))
    bound=5e-6+1.1*smax*abs(math.sin(rel))+1e-9
    td=abs(row.target_drop>>Distance.Foot)
    n_ok+=1
    if td>bound: viol+=1; print(n,'VIOL look %.1f zd %.0f mv %.0f'%(look,zd,mv), 'drop(ft)',td,'bound',bound)
    worst=max(worst, td/bound)
print('ok',n_ok,'fails(reachable)',fails,'unreachable raises',unreach,'viol',viol,'worst ratio',worst)
