import warnings, math, sys, random, time
warnings.simplefilter('ignore')
from py_ballisticcalc import *
from gen import rand_shot
rnd=random.Random(int(sys.argv[1]))
bad=0; n_err=0; n_ok=0; reasons={}
def raw(row): return (row.time, row.distance.raw_value, row.velocity.raw_value, row.mach, row.height.raw_value, row.windage.raw_value, row.flag)
for n in range(int(sys.argv[2])):
    shot=rand_shot(rnd)
    if rnd.random()<0.3: shot.relative_angle=Angular.Degree(rnd.choice([90, 89, -90, rnd.uniform(45,90), rnd.uniform(-90,-10)]))
    if rnd.random()<0.1: shot.ammo.mv=Velocity.FPS(rnd.choice([0, 1, 30, 49, 51]))
    alt0=shot.atmo.altitude>>Distance.Foot
    cfg={'cMinimumVelocity': rnd.choice([0, 50, 300, 1000, 2000]), 'cMaximumDrop': rnd.choice([-15000, -1000, -50, -1, 0]), 'cMinimumAltitude': rnd.choice([-1410.748, alt0-100, alt0-5, alt0, 0])}
    rng_ft=rnd.choice([rnd.uniform(30,1500), rnd.uniform(1500,9000), 20000])
    step_ft=rng_ft/rnd.choice([1,4,10])
    extra=rnd.random()<0.4
    c=Calculator(_config=cfg)
    t0=time.time()
    try:
        hr=c.fire(shot, Distance.Foot(rng_ft), Distance.Foot(step_ft), extra_data=extra); n_ok+=1
        rows=hr.trajectory; err=None
    except RangeError as e:
        err=e; rows=e.incomplete_trajectory; n_err+=1; reasons[e.reason]=reasons.get(e.reason,0)+1
    dt=time.time()-t0
    problems=[]
    def viol(row):
        v=row.velocity>>Velocity.FPS; y=row.height>>Distance.Foot
        return (v<cfg['cMinimumVelocity'], y<cfg['cMaximumDrop'], alt0+y<cfg['cMinimumAltitude'])
    if err:
        last=rows[-1]; vv=viol(last)
        names=[RangeError.MinimumVelocityReached, RangeError.MaximumDropReached, RangeError.MinimumAltitudeReached]
        if not any(vv): problems.append(('last row violates nothing',))
        elif names[vv.index(True)]!=err.reason: problems.append(('reason precedence', err.reason, vv))
        if err.last_distance is None or err.last_distance.raw_value!=last.distance.raw_value: problems.append('last_distance')
        for r in rows[1:-1]:
            if any(viol(r)): problems.append(('earlier row violates', raw(r), viol(r))); break
        # compare with unlimited
        cu=Calculator(_config={'cMinimumVelocity':0,'cMaximumDrop':-16000,'cMinimumAltitude':-16000})
        try: ur=cu.fire(shot, Distance.Foot(rng_ft), Distance.Foot(step_ft), extra_data=extra).trajectory
        except RangeError as e2: ur=e2.incomplete_trajectory
        for i,r in enumerate(rows[:-1]):
            if i>=len(ur) or raw(r)!=raw(ur[i]): problems.append(('row differs from unlimited', i, raw(r), raw(ur[i]) if i<len(ur) else None)); break
    else:
        for r in rows[1:]:
            if any(viol(r)): problems.append(('returned row violates limit', raw(r), viol(r))); break
        if (rows[-1].distance>>Distance.Foot) < rng_ft-1e-6: problems.append(('did not reach', rows[-1].distance>>Distance.Foot, rng_ft))
    if problems:
        bad+=1; print(n, cfg, 'rng',rng_ft,'extra',extra, 'err', err.reason if err else None, problems[:2])
    if dt>20: print('slow', dt)
print('ok',n_ok,'err',n_err,reasons,'bad',bad)
