import warnings, math, sys, random, time
warnings.simplefilter('ignore')
from py_ballisticcalc import *
from gen import rand_shot
rnd=random.Random(int(sys.argv[1]))
c=Calculator()
bad=0; tot=0; kinds={}
for n in range(int(sys.argv[2])):
    shot=rand_shot(rnd, flat=rnd.random()<0.5)
    rng=rnd.choice([600,1500,3000]); step=rnd.choice([3,10,30,100])
    try: hr=c.fire(shot, Distance.Foot(rng), Distance.Foot(step), extra_data=True)
    except RangeError as e: continue
    rows=hr.trajectory
    for _ in range(6):
        at=rnd.uniform(0, rng); th=rnd.choice([rnd.uniform(0.01,1), rnd.uniform(1,6), rnd.uniform(6,60)])
        ds=hr.danger_space(Distance.Foot(at), Distance.Foot(th))
        tot+=1
        ib=rows.index(ds.begin); ie=rows.index(ds.end); ic=rows.index(ds.at_range)
        half=Distance.Foot(th).raw_value/2; cd=ds.at_range.target_drop.raw_value
        probs=[]
        if not (ds.begin.distance.raw_value <= Distance.Foot(at).raw_value <= ds.end.distance.raw_value): probs.append('bracket')
        for r in rows[ib+1:ie]:
            if abs(r.target_drop.raw_value-cd)>=half*(1+1e-12): probs.append('inside-row-outside-target:'+('before' if r.distance.raw_value<ds.at_range.distance.raw_value else 'after')+(':below' if r.target_drop.raw_value<cd else ':above')); break
        if ib!=0 and abs(ds.begin.target_drop.raw_value-cd)<half: probs.append('begin not boundary')
        if ie!=len(rows)-1 and abs(ds.end.target_drop.raw_value-cd)<half: probs.append('end not boundary')
        if probs:
            bad+=1
            for p in probs: kinds[p]=kinds.get(p,0)+1
print('tot',tot,'bad',bad,kinds)
