import warnings, math, time, sys, random
warnings.simplefilter('ignore')
import py_ballisticcalc as pb
from py_ballisticcalc import *
from py_ballisticcalc.trajectory_calc._trajectory_calc import TrajectoryCalc, TrajFlag, ZeroFindingError
FIX = len(sys.argv)>3 and sys.argv[3]=='fix'
def zero_angle(self, shot_info, distance):
    self._init_trajectory(shot_info)
    acc = self._config.cZeroFindingAccuracy; mx = self._config.cMaxIterations
    distance_feet = distance >> Distance.Foot
    zero_distance = math.cos(self.look_angle) * distance_feet
    height_at_zero = math.sin(self.look_angle) * distance_feet
    it = 0; err = acc*2
    while err > acc and it < mx:
        t = self._integrate(shot_info, zero_distance, zero_distance, TrajFlag.NONE)[0]
        # height of the sampled point above the sight line, measured at the point's own distance
        height = (t.height >> Distance.Foot) - ((t.distance >> Distance.Foot) - zero_distance) * math.tan(self.look_angle)
        err = math.fabs(height - height_at_zero)
        if err > acc:
            self.barrel_elevation -= (height - height_at_zero) / zero_distance * math.cos(self.barrel_elevation)**2
        else:
            break
        it += 1
    if err > acc:
        raise ZeroFindingError(err, it, Angular.Radian(self.barrel_elevation))
    return Angular.Radian(self.barrel_elevation)
if FIX: TrajectoryCalc.zero_angle = zero_angle
seed=int(sys.argv[1]); random.seed(seed)
tables=['TableG1','TableG7','TableG2','TableG5','TableG6','TableG8','TableGI','TableGS','TableRA4']
c=Calculator()
fails=0; viol=0; n_ok=0; worst=0
for n in range(int(sys.argv[2])):
    tbl=getattr(pb, random.choice(tables))
    dm=DragModel(random.uniform(0.1,0.9), tbl)
    mv=random.choice([random.uniform(600,1100), random.uniform(1100,3500)])
    look=random.choice([0,random.uniform(-59,59),random.uniform(-59,59)])
    sh=random.choice([0, random.uniform(-2,5)])
    nw=random.choice([0,0,1,2])
    winds=[Wind(Velocity.MPH(random.uniform(0,40)), Angular.Degree(random.uniform(0,360)), Distance.Yard(random.uniform(30,1500))) for _ in range(nw)]
    stored=random.choice([0,0,random.uniform(-2,2), random.uniform(-20,20)])
    zd=random.choice([random.uniform(5,50), random.uniform(50,600), random.uniform(600,1500)])
    shot=Shot(weapon=Weapon(Distance.Inch(sh), 0, Angular.Degree(stored)), ammo=Ammo(dm, Velocity.FPS(mv)), look_angle=Angular.Degree(look), winds=winds)
    hx = Distance.Yard(zd*math.cos(math.radians(look)))
    # precondition: launched along the sight line reaches hx
    pre=Shot(weapon=Weapon(Distance.Inch(sh), 0, 0), ammo=shot.ammo, look_angle=shot.look_angle, winds=winds)
    try: c.fire(pre, hx, hx)
    except RangeError: continue
    try:
        ze = c.set_weapon_zero(shot, Distance.Yard(zd))
    except Exception as e:
        fails+=1; print(n,'FAIL', type(e).__name__, 'look %.1f zd %.0f mv %.0f stored %.1f'%(look,zd,mv,stored), 'zero kept', (shot.weapon.zero_elevation>>Angular.Degree)==stored or abs((shot.weapon.zero_elevation>>Angular.Degree)-stored)<1e-12); continue
    hr = c.fire(shot, hx, hx)
    row = hr[-1]
    rel_slope = math.tan((row.angle>>Angular.Radian) - math.radians(look))
    bound=(5e-6+0.55*abs(rel_slope))
    td=abs(row.target_drop>>Distance.Foot)
    n_ok+=1
    if td>bound: viol+=1; print(n,'VIOL look %.1f zd %.0f mv %.0f'%(look,zd,mv), 'drop(ft)',td,'bound',bound)
    worst=max(worst, td/bound)
print('ok',n_ok,'fails',fails,'viol',viol,'worst ratio',worst)
