import warnings, math
warnings.simplefilter('ignore')
from py_ballisticcalc import *
# independent ISA
T0=288.15; P0=101325.0; L=0.0065; g=9.80665; M=0.0289644; R=8.3144598; Rs=287.05287; gamma=1.4
def isa(h_m):
    T=T0-L*h_m; P=P0*(T/T0)**(g*M/(R*L)); rho=P/(Rs*T); a=math.sqrt(gamma*Rs*T)
    return T,P,rho,a
rho0=isa(0)[2]
w=[0]*4
for hf in range(-1400,36001,200):
    a=Atmo.icao(Distance.Foot(hf))
    T,P,rho,c=isa(hf*0.3048)
    e=[abs((a.temperature>>Temperature.Kelvin)/T-1), abs((a.pressure>>Pressure.hPa)*100/P-1), abs(a.density_ratio/(rho/rho0)-1), abs((a.mach>>Velocity.MPS)/c-1)]
    w=[max(x,y) for x,y in zip(w,e)]
print('ISA rel errs T,P,rho,a:', w)
# self-consistency: standard station at h0 predicting at h1 vs standard station at h1
w2=[0,0]; arg=None
for h0 in range(-1400,36001,1800):
    s=Atmo.icao(Distance.Foot(h0))
    for h1 in range(-1400,36001,700):
        d,m = s.get_density_factor_and_mach_for_altitude(h1)
        t=Atmo.icao(Distance.Foot(h1))
        e=[abs(d/t.density_ratio-1), abs(m/(t.mach>>Velocity.FPS)-1)]
        if e[0]>w2[0]: arg=(h0,h1,d,t.density_ratio)
        w2=[max(x,y) for x,y in zip(w2,e)]
print('cross-altitude rel errs', w2, arg)
s=Atmo.icao(Distance.Foot(5000))
print('at station', s.get_density_factor_and_mach_for_altitude(5000), s.density_ratio, s.mach>>Velocity.FPS)
for dh in [29.999, 30.0, 30.001]:
    print(dh, s.get_density_factor_and_mach_for_altitude(5000+dh), s.get_density_factor_and_mach_for_altitude(5000-dh))
# humidity
for h in [0, 0.5, 50, 1, 100, 1.0001, 99]:
    print('hum', h, Atmo(humidity=h).density_ratio, Atmo(humidity=h).humidity)
for h in [-0.1, 100.1, 101]:
    try: Atmo(humidity=h); print('accepted', h)
    except ValueError as e: print('rejected', h)
v=Vacuum(); print('vac', v.density_ratio, [v.get_density_factor_and_mach_for_altitude(a) for a in (0,29,31,5000,-1000,30000)])
v=Vacuum(Distance.Foot(3000), Temperature.Celsius(5)); print('vac', v.density_ratio, [v.get_density_factor_and_mach_for_altitude(a) for a in (0,2999,3031,5000,-1000,30000)], v.pressure, v.temperature)
