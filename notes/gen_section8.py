"""Regenerates the seeded-change table and history list of DESIGN.md section 8.1 from seeded/*/meta.json
(between the markers <!-- SEEDED-TABLE-BEGIN/END --> and <!-- SEEDED-HISTORY-BEGIN/END -->)."""
import json
import os
import re

ROOT = os.path.dirname(os.path.dirname(os.path.abspath(__file__)))
rows = []
for d in sorted(os.listdir(os.path.join(ROOT, "seeded"))):
    m = os.path.join(ROOT, "seeded", d, "meta.json")
    if not os.path.exists(m):
        continue
    j = json.load(open(m, encoding="utf-8"))
    checks = ", ".join(f"{k} {v['verdict'].lower()}" for k, v in j["checks"].items())
    first = next((v["first_violation"] for v in j["checks"].values() if v["verdict"] == "CAUGHT"), "")
    key = re.search(r"\[([^\]]+)\]", first)
    rows.append((j["breaks_property"], d, j["needs_to_manifest"], checks, key.group(1) if key else "", j.get("history", ""),
                 j.get("neutralised_by")))
table = ["| property | seeded change (`seeded/<name>/`) | needs, to manifest | checks run → verdict | first witness key |", "|---|---|---|---|---|"]
for p, d, n, c, k, h, neut in rows:
    table.append(f"| {p} | `{d}` | {n} | {c}{' (neutralised by fix ' + neut + ', see history)' if neut else ''} | `{k}` |")
hist = [f"* `{d}` — {h}" for p, d, n, c, k, h, neut in rows if h]
s = open(os.path.join(ROOT, "DESIGN.md"), encoding="utf-8").read()
s = re.sub(r"<!-- SEEDED-TABLE-BEGIN -->.*?<!-- SEEDED-TABLE-END -->", "<!-- SEEDED-TABLE-BEGIN -->\n" + "\n".join(table) + "\n<!-- SEEDED-TABLE-END -->", s, flags=re.S)
s = re.sub(r"<!-- SEEDED-HISTORY-BEGIN -->.*?<!-- SEEDED-HISTORY-END -->", "<!-- SEEDED-HISTORY-BEGIN -->\n" + "\n".join(hist) + "\n<!-- SEEDED-HISTORY-END -->", s, flags=re.S)
open(os.path.join(ROOT, "DESIGN.md"), "w", encoding="utf-8").write(s)
print(len(rows), "seeded changes;", sum(1 for r in rows if r[5]), "with history notes")
