"""Prompt generator for the independently seeded property-breaking changes (DESIGN 8.1).

  python3 notes/seed_prompt.py <round> <property> [<property> ...]      prints / writes /tmp/prompt<round>_<prop>.txt

A sub-agent gets ONLY: the text of one property, the path of its own scratch worktree of /repo, the names of the
changes already archived for that property (so that it picks another mechanism) and the theme of the round.
Nothing else from /verif.  Worktrees:  git -C /repo worktree add --detach /tmp/seed<round>_<prop> HEAD
"""
import json
import os
import sys

HERE = os.path.dirname(os.path.abspath(__file__))
ROOT = os.path.dirname(HERE)

THEMES = {
    9: ("interactions between features: two places that each look fine alone but break the property together, or a rarely "
        "combined pair of features / options / arguments (debug logging x wind, a configuration value of unusual sign, an "
        "attribute assigned after construction on a subclass, a tiny record step followed by another call on the same object)"),
    10: ("performance work gone slightly wrong: caches and memos with an incomplete key, early exits, fast paths for the 'common' "
         "case, work hoisted out of a loop although it depends on the loop, approximations valid only in the usual regime, "
         "pre-computed tables, lazily initialised attributes, __slots__/dataclass conversions that share state"),
    11: ("API evolution and defensive programming gone slightly wrong: argument validation / normalisation / clamping added at "
         "an entry point, a default changed or made to depend on another argument, a keyword renamed with an incomplete alias, "
         "type coercion (int(), float(), round()), copy / deepcopy / pickling / equality / repr support added to a class, "
         "exceptions caught too broadly or converted, warnings turned into silent corrections"),
    12: ("numerical-robustness edits gone slightly wrong: tolerances and math.isclose in comparisons, epsilon guards against "
         "division by zero, clamping of arguments to acos / sqrt / tan, rounding of intermediate values, sums re-associated, "
         "integer division, min / max guards on step sizes, NaN / infinity handling, comparisons of floats for equality "
         "replaced by <= / >= or the reverse"),
}

TEMPLATE = """You are helping to test how well a verification framework detects regressions in the open-source Python library
py-ballisticcalc (a point-mass small-arms ballistic trajectory solver, pure Python).  Your job: write ONE realistic change to
the library that BREAKS the property stated below while the library still imports and its existing test-suite still passes,
plus a small demonstration program that shows the breakage.

Your own scratch git worktree of the repository is {wt} (work ONLY there; never touch /repo or /verif, never read /verif).
Interpreter: /venv/bin/python   (run things as:  cd {wt} && PYTHONPATH={wt} /venv/bin/python ...).
The package is in {wt}/py_ballisticcalc ; its tests in {wt}/tests.

THE PROPERTY (id {pid}):
{ptext}

REQUIREMENTS
1. The change is a small edit to files under {wt}/py_ballisticcalc (a few lines up to ~30 lines; one or two files) that a
   maintainer could plausibly make in good faith - a refactoring slip, an optimisation, an 'improvement' - and that looks
   harmless in review.  Not sabotage-looking, no dead code, no comments pointing at the breakage.
2. With the change the whole existing suite must still pass:
      cd {wt} && PYTHONPATH={wt} /venv/bin/python -m pytest -q -p no:cacheprovider tests        (expect '108 passed')
3. The change must need something SPECIFIC to manifest - a particular multi-step sequence of operations, an unusual input or
   configuration, a rare combination of options, two cooperating sites that each look fine alone - not something ordinary
   use would expose at once.  It must, however, really violate the property as stated (for inputs the property quantifies over),
   not some stricter reading of it.
4. Theme of this round - pick your change from this family: {theme}.
5. These changes were already written for this property by earlier rounds - choose a DIFFERENT mechanism, code site and trigger:
{earlier}
6. Write the demonstration as {wt}/demo_{pid}.py : a self-contained program using only the public API of the library and
   the standard library, which exits with status 0 on the unchanged code and with a non-zero status (printing what it
   observed) when your change is applied.  It must decide by an independent criterion (a formula, a relation between two
   runs, a closed form), not by comparing with numbers copied from the unchanged code's output where avoidable.
   Verify both: run it with your change (non-zero), then `git diff > /tmp/{tag}.diff && git apply -R /tmp/{tag}.diff`,
   run it again (0), then `git apply /tmp/{tag}.diff` to restore your change.  Do NOT use `git stash` (it is shared between
   worktrees), do NOT commit.  Leave the worktree with your change applied (uncommitted) and demo_{pid}.py present.
7. Do not create other files in the worktree (scratch files elsewhere under /tmp are fine; delete them when done).

FINAL ANSWER (plain text, short): (a) one-line name of the change in kebab-case, e.g. 'cache-keyed-without-wind';
(b) the files/lines changed and what the change does; (c) exactly what it needs in order to manifest;
(d) the commands you ran and their results (tests: '108 passed'? demo with / without the change?).
"""


def main():
    rnd = int(sys.argv[1])
    props = {}
    with open(os.path.join(ROOT, "properties.jsonl"), encoding="utf-8") as fp:
        for line in fp:
            if line.strip():
                d = json.loads(line)
                props[d["id"]] = d
    for pid in sys.argv[2:]:
        d = props[pid]
        text = json.dumps({k: d[k] for k in ("id", "title", "statement", "quantifier", "why_tests_cant", "anchors") if k in d}, indent=1)
        earlier = sorted(n for n in os.listdir(os.path.join(ROOT, "seeded")) if n.startswith(pid + "-"))
        wt = f"/tmp/seed{rnd}_{pid}"
        out = TEMPLATE.format(wt=wt, pid=pid, ptext=text, theme=THEMES[rnd], tag=f"seed{rnd}_{pid}",
                              earlier="\n".join("     - " + n[len(pid) + 1:] for n in earlier) or "     (none)")
        path = f"/tmp/prompt{rnd}_{pid}.txt"
        with open(path, "w", encoding="utf-8") as fp:
            fp.write(out)
        print(path, len(out))


if __name__ == "__main__":
    main()
