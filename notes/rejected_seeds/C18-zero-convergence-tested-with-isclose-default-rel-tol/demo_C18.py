"""C18 demonstration: the configured zero-finding accuracy must govern the zero a calculator returns.

For each (accuracy, look angle, distance) a calculator is built with cZeroFindingAccuracy=accuracy, asked for the
barrel elevation that hits the target, and then the very shot it converged on is fired again with that elevation.
The criterion is the setting itself: the trajectory, read at the target's horizontal distance, must lie within
`accuracy` feet of the sight line there (the solver succeeded, so it claims exactly that).
A calculator with the default accuracy serves as the control: it must keep passing in either case.
"""
import math
import sys

from py_ballisticcalc import (Calculator, Shot, Weapon, Ammo, DragModel, TableG7, Atmo,
                              Distance, Angular, Velocity, Weight, Unit)
from py_ballisticcalc.exceptions import ZeroFindingError

DEFAULT_ACCURACY = 0.000005  # documented default, ft


def make_shot(look_deg):
    dm = DragModel(0.31, TableG7, Weight.Grain(175), Distance.Inch(0.308), Distance.Inch(1.24))
    weapon = Weapon(sight_height=Distance.Inch(2.0), twist=Distance.Inch(11.0))
    ammo = Ammo(dm, Velocity.FPS(2750))
    return Shot(weapon=weapon, ammo=ammo, look_angle=Angular.Degree(look_deg), atmo=Atmo.icao())


def miss_at_target(calc, look_deg, distance_ft):
    """Distance (ft) between the converged trajectory and the sight line at the target's horizontal distance"""
    shot = make_shot(look_deg)
    elevation = calc.barrel_elevation_for_target(shot, Distance.Foot(distance_ft))
    shot.weapon.zero_elevation = elevation
    look = shot.look_angle >> Angular.Radian
    horizontal = math.cos(look) * distance_ft
    row = calc.fire(shot, Distance.Foot(horizontal), Distance.Foot(horizontal)).trajectory[-1]
    x = row.distance >> Distance.Foot
    y = (row.height >> Distance.Foot) - (x - horizontal) * math.tan(look)
    return abs(y - math.sin(look) * distance_ft)


def main():
    failures = []
    cases = [
        # accuracy ft, look angle deg, look distance ft
        (1e-8, 30.0, 2400.0),
        (1e-8, 20.0, 1800.0),
        (1e-9, 12.0, 1500.0),
        (1e-9, 0.0, 1500.0),
        (DEFAULT_ACCURACY, 30.0, 2400.0),
        (DEFAULT_ACCURACY, 0.0, 1500.0),
    ]
    for accuracy, look_deg, distance_ft in cases:
        calc = Calculator(_config={'cZeroFindingAccuracy': accuracy, 'cMaxIterations': 60})
        try:
            miss = miss_at_target(calc, look_deg, distance_ft)
        except ZeroFindingError as error:
            print(f"accuracy={accuracy:g} look={look_deg} dist={distance_ft}: no convergence ({error})")
            failures.append((accuracy, look_deg, distance_ft, 'no convergence'))
            continue
        ok = miss <= accuracy
        print(f"accuracy={accuracy:g} ft look={look_deg:5.1f} deg dist={distance_ft:7.1f} ft: "
              f"miss={miss:.3e} ft -> {'ok' if ok else 'VIOLATION: zero accepted outside the configured accuracy'}")
        if not ok:
            failures.append((accuracy, look_deg, distance_ft, miss))
    if failures:
        print(f"{len(failures)} case(s) where cZeroFindingAccuracy did not govern the zero: {failures}")
        return 1
    print("configured zero accuracy honoured in all cases")
    return 0


if __name__ == '__main__':
    sys.exit(main())
