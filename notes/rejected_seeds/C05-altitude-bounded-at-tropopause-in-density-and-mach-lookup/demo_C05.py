"""C05 demonstration: the Mach column must be speed / (speed of sound at the row's own altitude).

A rifle is fired steeply upwards from a station at 35,000 ft, so that the bullet climbs through
36,089 ft.  For every returned row the speed of sound implied by the row (velocity / mach) is compared
with the closed form  c = sqrt(gamma * R * T)  where T follows the constant lapse rate of the library's
atmosphere model from the station temperature to the row's altitude (station altitude + row height).
"""
import math
import sys
import warnings

from py_ballisticcalc import Calculator, Shot, Weapon, Ammo, Atmo, DragModel, TableG7
from py_ballisticcalc.unit import Distance, Velocity, Angular, Temperature

warnings.simplefilter("ignore")

LAPSE_K_PER_FT = -0.0019812          # 6.5 K/km
GAMMA_R = 1.4 * 287.05               # J/(kg K)
MPS_TO_FPS = 3.2808399
FLOOR_K = (-130 - 32) * 5 / 9 + 273.15   # documented lowest modelled temperature (-130 F)

station_ft = 35000.0
atmo = Atmo.icao(Distance.Foot(station_ft))
t0_k = (atmo.temperature >> Temperature.Celsius) + 273.15

shot = Shot(weapon=Weapon(sight_height=Distance.Inch(2), twist=Distance.Inch(10)),
            ammo=Ammo(DragModel(0.381, TableG7, 300, 0.338, 1.7), Velocity.FPS(2900)),
            relative_angle=Angular.Degree(55), atmo=atmo)
rows = Calculator().fire(shot, Distance.Yard(4000), Distance.Yard(100), extra_data=False).trajectory

worst = (0.0, None)
checked = above = 0
for row in rows:
    alt = station_ft + (row.height >> Distance.Foot)
    t_k = max(t0_k + LAPSE_K_PER_FT * (alt - station_ft), FLOOR_K)
    expected_c = math.sqrt(GAMMA_R * t_k) * MPS_TO_FPS
    observed_c = (row.velocity >> Velocity.FPS) / row.mach
    rel = abs(observed_c / expected_c - 1)
    checked += 1
    above += alt > 36089
    if rel > worst[0]:
        worst = (rel, (row.distance >> Distance.Yard, alt, observed_c, expected_c, row.mach))

print(f"rows checked: {checked} (of which above 36,089 ft: {above}); worst relative deviation of the "
      f"speed of sound implied by the Mach column: {worst[0]:.2e}")
if above == 0:
    print("INCONCLUSIVE: trajectory never rose above 36,089 ft")
    sys.exit(2)
if worst[0] > 1e-3:
    d, alt, oc, ec, m = worst[1]
    print(f"VIOLATION at distance {d:.0f} yd, altitude {alt:.0f} ft: row.mach={m:.4f} implies speed of sound "
          f"{oc:.2f} fps, but at that altitude it is {ec:.2f} fps")
    sys.exit(1)
print("OK: Mach = speed / local speed of sound at every row's altitude")
sys.exit(0)
