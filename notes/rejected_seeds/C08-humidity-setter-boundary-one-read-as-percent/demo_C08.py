"""C08 demonstration: relative humidity given as a fraction and as a percentage must mean the same,
and the density ratio must fall as humidity rises - including at the saturated end of the range.

Criteria (none of them uses numbers copied from the library's output):
  1. a station built with humidity f (fraction) and one built with 100*f (percent) have the same density ratio;
  2. along the fraction scale 0 .. 1 the density ratio never rises;
  3. the station's density ratio equals calculate_air_density(t, p, f) / 1.225 for the fraction f that was asked for;
  4. the same three hold when humidity is assigned after construction, and at other temperatures / pressures.
"""
import math
import sys

from py_ballisticcalc import Atmo, Unit

STANDARD_DENSITY = 1.225  # kg/m^3
failures = []


def station(t_c, p_hpa, humidity):
    return Atmo(altitude=Unit.Foot(0), pressure=Unit.hPa(p_hpa), temperature=Unit.Celsius(t_c), humidity=humidity)


def check(t_c, p_hpa):
    fractions = [0.0, 0.25, 0.5, 0.75, 0.9, 0.99, 1.0]

    # 1. fraction and percent mean the same
    for f in fractions:
        as_fraction = station(t_c, p_hpa, f).density_ratio
        as_percent = station(t_c, p_hpa, 100.0 * f).density_ratio
        if not math.isclose(as_fraction, as_percent, rel_tol=1e-9):
            failures.append(f"T={t_c}C P={p_hpa}hPa: humidity={f} gives density ratio {as_fraction:.6f} "
                            f"but humidity={100.0 * f} gives {as_percent:.6f}")

    # 2. density ratio falls with humidity over the whole fraction scale
    ratios = [station(t_c, p_hpa, f).density_ratio for f in fractions]
    for (f0, r0), (f1, r1) in zip(zip(fractions, ratios), zip(fractions[1:], ratios[1:])):
        if not r1 < r0:
            failures.append(f"T={t_c}C P={p_hpa}hPa: density ratio rises from {r0:.6f} at humidity={f0} "
                            f"to {r1:.6f} at humidity={f1}")

    # 3. closed form for the requested fraction
    for f in fractions:
        expected = Atmo.calculate_air_density(t_c, p_hpa, f) / STANDARD_DENSITY
        got = station(t_c, p_hpa, f).density_ratio
        if not math.isclose(got, expected, rel_tol=1e-6):
            failures.append(f"T={t_c}C P={p_hpa}hPa: humidity={f} gives density ratio {got:.6f}, "
                            f"moist-air formula gives {expected:.6f}")

    # 4. the same by assignment
    atmo = station(t_c, p_hpa, 0.0)
    previous = atmo.density_ratio
    for f in fractions[1:]:
        atmo.humidity = f
        if not atmo.density_ratio < previous:
            failures.append(f"T={t_c}C P={p_hpa}hPa: after atmo.humidity = {f} the density ratio went from "
                            f"{previous:.6f} to {atmo.density_ratio:.6f} (stored humidity {atmo.humidity})")
        previous = atmo.density_ratio


for t_c, p_hpa in [(15.0, 1013.25), (35.0, 1000.0), (50.0, 700.0), (-10.0, 1050.0)]:
    check(t_c, p_hpa)

# out-of-range values are still refused
for bad in (-0.5, 100.5, 250):
    try:
        Atmo(humidity=bad)
    except ValueError:
        pass
    else:
        failures.append(f"humidity={bad} was accepted")

if failures:
    print(f"C08 violated ({len(failures)} observations):")
    for line in failures:
        print("  " + line)
    sys.exit(1)
print("C08 holds: fraction and percent humidity agree, density ratio falls with humidity up to saturation")
sys.exit(0)
