"""Reference models (trusted base of the oracles).

R-ODE: classical RK4 integrator of the 3-DoF point-mass equations of the C01 statement.  The two coefficient
functions named as black boxes by the property (air density ratio / speed of sound at an altitude, drag function of
Mach over BC) are passed in; everything else (initial state from the angles, wind vectors, segment switching, gravity)
is written out here from the property text.
"""
import math

G_STD = -32.17405
MAX_WIND_FT = 1e8


def initial_state(spec, mv_fps=None):
    """Muzzle position and velocity implied by the spec (feet, ft/s)."""
    cant = math.radians(spec.get("cant_deg", 0.0))
    hold = math.radians(spec.get("zero_deg", 0.0)) + math.radians(spec.get("rel_deg", 0.0))
    el = math.radians(spec.get("look_deg", 0.0)) + math.cos(cant) * hold
    az = math.sin(cant) * hold
    sh = spec.get("sight_height_in", 0.0) / 12.0
    mv = spec["mv_fps"] if mv_fps is None else mv_fps
    pos = (0.0, -math.cos(cant) * sh, -math.sin(cant) * sh)
    vel = (mv * math.cos(el) * math.cos(az), mv * math.sin(el), mv * math.cos(el) * math.sin(az))
    return pos, vel


def wind_segments(spec):
    """[(until_ft, (wx, wy, wz))] in order of until-distance (stable for ties, like any sort of the given list)."""
    segs = []
    for speed, direction, until in (spec.get("winds") or []):
        d = math.radians(direction)
        segs.append((MAX_WIND_FT if until is None else until, (speed * math.cos(d), 0.0, speed * math.sin(d))))
    segs.sort(key=lambda s: s[0])
    return segs


class RefResult:
    __slots__ = ("at", "k_max", "switches", "steps", "path_air", "v_min", "stopped")

    def __init__(self):
        self.at = {}          # x -> (t, x, y, z, vx, vy, vz) or None when not reached
        self.k_max = 0.0      # largest drag rate rho*|v-w|*f along the path [1/s]
        self.switches = []    # [(t, |dw|, |da|)] wind changes actually crossed, with the jump in acceleration
        self.steps = 0
        self.path_air = 0.0   # air-relative path length [ft]
        self.v_min = float("inf")
        self.stopped = None


def solve(spec, xs, density_mach, drag_by_mach, alt0_ft, h=0.05, gravity=G_STD, mv_fps=None, t_max=600.0,
          max_steps=4_000_000):
    """RK4 with dt = h / max(1, |v - w|); lands exactly on every wind boundary and every x in xs."""
    segs = wind_segments(spec)
    (px, py, pz), (vx, vy, vz) = initial_state(spec, mv_fps)
    res = RefResult()
    t = 0.0
    widx = 0
    while widx < len(segs) and px >= segs[widx][0]:
        widx += 1
    xs = sorted(xs)
    xi = 0
    while xi < len(xs) and xs[xi] <= 0.0:
        res.at[xs[xi]] = (t, px, py, pz, vx, vy, vz)
        xi += 1
    sqrt = math.sqrt

    def deriv(y, ux, uy, uz, wx, wz):
        dens, c = density_mach(alt0_ft + y)
        ax, az = ux - wx, uz - wz
        s = sqrt(ax * ax + uy * uy + az * az)
        k = dens * s * drag_by_mach(s / c)
        return k, -k * ax, -k * uy + gravity, -k * az

    def step(px, py, pz, vx, vy, vz, wx, wz, dt):
        k1, a1x, a1y, a1z = deriv(py, vx, vy, vz, wx, wz)
        hdt = 0.5 * dt
        v2x, v2y, v2z = vx + hdt * a1x, vy + hdt * a1y, vz + hdt * a1z
        _, a2x, a2y, a2z = deriv(py + hdt * vy, v2x, v2y, v2z, wx, wz)
        v3x, v3y, v3z = vx + hdt * a2x, vy + hdt * a2y, vz + hdt * a2z
        _, a3x, a3y, a3z = deriv(py + hdt * v2y, v3x, v3y, v3z, wx, wz)
        v4x, v4y, v4z = vx + dt * a3x, vy + dt * a3y, vz + dt * a3z
        _, a4x, a4y, a4z = deriv(py + dt * v3y, v4x, v4y, v4z, wx, wz)
        s6 = dt / 6.0
        return (px + s6 * (vx + 2 * v2x + 2 * v3x + v4x), py + s6 * (vy + 2 * v2y + 2 * v3y + v4y),
                pz + s6 * (vz + 2 * v2z + 2 * v3z + v4z),
                vx + s6 * (a1x + 2 * a2x + 2 * a3x + a4x), vy + s6 * (a1y + 2 * a2y + 2 * a3y + a4y),
                vz + s6 * (a1z + 2 * a2z + 2 * a3z + a4z), k1)

    while xi < len(xs):
        if t >= t_max or res.steps >= max_steps:
            res.stopped = "budget"
            break
        wx, _, wz = segs[widx][1] if widx < len(segs) else (0.0, 0.0, 0.0)
        ax, az = vx - wx, vz - wz
        s_air = sqrt(ax * ax + vy * vy + az * az)
        dt = h / max(1.0, s_air)
        nb = xs[xi]
        if widx < len(segs) and segs[widx][0] < nb:
            nb = segs[widx][0]
        nx, ny, nz, nvx, nvy, nvz, k = step(px, py, pz, vx, vy, vz, wx, wz, dt)
        if k > res.k_max:
            res.k_max = k
        res.steps += 1
        if nx >= nb and nx > px:
            # land on the boundary: regula falsi / bisection on dt
            lo, hi, flo, fhi = 0.0, dt, px - nb, nx - nb
            st = (nx, ny, nz, nvx, nvy, nvz, k)
            mid = dt
            for _ in range(60):
                mid = lo - flo * (hi - lo) / (fhi - flo) if fhi != flo else 0.5 * (lo + hi)
                if not lo < mid < hi:
                    mid = 0.5 * (lo + hi)
                st = step(px, py, pz, vx, vy, vz, wx, wz, mid)
                f = st[0] - nb
                if abs(f) <= 1e-12 * max(1.0, abs(nb)):
                    break
                if f < 0:
                    lo, flo = mid, f
                else:
                    hi, fhi = mid, f
            res.path_air += s_air * mid
            px, py, pz, vx, vy, vz, _ = st
            t += mid
            if nb == xs[xi]:
                while xi < len(xs) and xs[xi] == nb:
                    res.at[xs[xi]] = (t, px, py, pz, vx, vy, vz)
                    xi += 1
            while widx < len(segs) and px >= segs[widx][0] - 1e-12 * max(1.0, abs(segs[widx][0])):
                old = segs[widx][1]
                widx += 1
                new = segs[widx][1] if widx < len(segs) else (0.0, 0.0, 0.0)
                dw = sqrt((new[0] - old[0]) ** 2 + (new[2] - old[2]) ** 2)
                if dw > 0:
                    # the acceleration the projectile feels under the old and under the new wind, at the state of the switch:
                    # what a solver that notices the switch one step late gets wrong for that step (near Mach 1 this is much
                    # more than drag rate x |dw|, because the drag function is steep there)
                    _, aox, aoy, aoz = deriv(py, vx, vy, vz, old[0], old[2])
                    _, anx, any_, anz = deriv(py, vx, vy, vz, new[0], new[2])
                    da = sqrt((anx - aox) ** 2 + (any_ - aoy) ** 2 + (anz - aoz) ** 2)
                    res.switches.append((t, dw, da))
            continue
        if nvx <= 0 and nx < nb:
            res.stopped = "moving backwards"
            break
        res.path_air += s_air * dt
        px, py, pz, vx, vy, vz = nx, ny, nz, nvx, nvy, nvz
        t += dt
        sp = sqrt(vx * vx + vy * vy + vz * vz)
        if sp < res.v_min:
            res.v_min = sp
    for x in xs[xi:]:
        res.at[x] = None
    return res


def parabola(spec, x, gravity=G_STD):
    """Closed-form vacuum state at down-range distance x: (t, y, z, vx, vy, vz)."""
    (px, py, pz), (vx, vy, vz) = initial_state(spec)
    t = (x - px) / vx
    return t, py + vy * t + 0.5 * gravity * t * t, pz + vz * t, vx, vy + gravity * t, vz


def fly_until_limits(spec, density_mach, drag_by_mach, alt0_ft, v_min, max_drop, min_alt, h=1.0, gravity=G_STD,
                     mv_fps=None, max_path=3.0e6):
    """Coarse RK4 flight (ignoring any requested range) until one of the three limits is violated.
    Returns (air-relative path length [ft], ground path length [ft], reason | None when max_path was exhausted)."""
    segs = wind_segments(spec)
    (px, py, pz), (vx, vy, vz) = initial_state(spec, mv_fps)
    sqrt = math.sqrt
    widx = 0
    path_air = path_gnd = 0.0

    def acc(y, ux, uy, uz, wx, wz):
        dens, c = density_mach(alt0_ft + y)
        ax, az = ux - wx, uz - wz
        s = sqrt(ax * ax + uy * uy + az * az)
        k = dens * s * drag_by_mach(s / c)
        return -k * ax, -k * uy + gravity, -k * az

    while path_air < max_path and path_gnd < max_path:
        while widx < len(segs) and px >= segs[widx][0]:
            widx += 1
        wx, _, wz = segs[widx][1] if widx < len(segs) else (0.0, 0.0, 0.0)
        ax, az = vx - wx, vz - wz
        s_air = sqrt(ax * ax + vy * vy + az * az)
        dt = h / max(1.0, s_air)
        a1 = acc(py, vx, vy, vz, wx, wz)
        hdt = 0.5 * dt
        v2 = (vx + hdt * a1[0], vy + hdt * a1[1], vz + hdt * a1[2])
        a2 = acc(py + hdt * vy, v2[0], v2[1], v2[2], wx, wz)
        v3 = (vx + hdt * a2[0], vy + hdt * a2[1], vz + hdt * a2[2])
        a3 = acc(py + hdt * v2[1], v3[0], v3[1], v3[2], wx, wz)
        v4 = (vx + dt * a3[0], vy + dt * a3[1], vz + dt * a3[2])
        a4 = acc(py + dt * v3[1], v4[0], v4[1], v4[2], wx, wz)
        s6 = dt / 6.0
        px += s6 * (vx + 2 * v2[0] + 2 * v3[0] + v4[0])
        py += s6 * (vy + 2 * v2[1] + 2 * v3[1] + v4[1])
        pz += s6 * (vz + 2 * v2[2] + 2 * v3[2] + v4[2])
        vx += s6 * (a1[0] + 2 * a2[0] + 2 * a3[0] + a4[0])
        vy += s6 * (a1[1] + 2 * a2[1] + 2 * a3[1] + a4[1])
        vz += s6 * (a1[2] + 2 * a2[2] + 2 * a3[2] + a4[2])
        sp = sqrt(vx * vx + vy * vy + vz * vz)
        path_air += s_air * dt
        path_gnd += sp * dt
        if sp < v_min:
            return path_air, path_gnd, "velocity"
        if py < max_drop:
            return path_air, path_gnd, "drop"
        if alt0_ft + py < min_alt:
            return path_air, path_gnd, "altitude"
    return path_air, path_gnd, None
