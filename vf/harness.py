"""Harness: sharding, seeds, worker subprocesses, three-valued verdicts, evidence, replay files.

Parent side:  run_check(prop, tier, seed)  -> exit code (0 held, 1 violation, 2 inconclusive)
Worker side:  Ctx  (handed to checks/cNN.run / .replay)
"""
from __future__ import annotations

import hashlib
import importlib
import json
import math
import os
import random
import shutil
import subprocess
import sys
import tempfile
import time
from collections import Counter

ROOT = os.path.dirname(os.path.dirname(os.path.abspath(__file__)))  # checkout root (/verif or a snapshot)
REPO = os.path.abspath(os.environ.get("VF_REPO", "/repo"))
PY = os.environ.get("VF_PYTHON", "/venv/bin/python")
DEPS = os.path.join(ROOT, ".deps")
WHEELS = "/opt/veriftools/wheels"
MAX_SHARDS = int(os.environ.get("VF_SHARDS", "14"))
LEVEL = "exploration"
OUT = os.path.abspath(os.environ.get("VF_OUT", ROOT))   # where evidence/ and replay/ are written (self-tests redirect it)


# ----------------------------------------------------------------------------- helpers
def jsonable(o, depth=0):
    """Make a value safe for strict JSON (non-finite floats -> strings, tuples -> lists)."""
    if isinstance(o, float):
        if math.isfinite(o):
            return o
        return repr(o)
    if isinstance(o, (str, int, bool)) or o is None:
        return o
    if isinstance(o, dict):
        return {str(k): jsonable(v, depth + 1) for k, v in o.items()}
    if isinstance(o, (list, tuple, set, frozenset)):
        return [jsonable(v, depth + 1) for v in o]
    return repr(o)


def case_hash(case) -> str:
    return hashlib.sha256(json.dumps(jsonable(case), sort_keys=True).encode()).hexdigest()[:16]


def shard_seed(seed: int, prop: str, shard: int) -> int:
    return int.from_bytes(hashlib.sha256(f"{seed}:{prop}:{shard}".encode()).digest()[:8], "big")


def ensure_deps() -> str:
    """icontract next to the repo's interpreter, offline.  Returns 'icontract' or 'fallback'."""
    if os.path.isdir(os.path.join(DEPS, "icontract")):
        return "icontract"
    if not os.path.isdir(WHEELS):
        return "fallback"
    try:
        subprocess.run([PY, "-m", "pip", "install", "-q", "--no-index", "--find-links", WHEELS,
                        "--target", DEPS, "icontract"], check=True, timeout=300,
                       stdout=subprocess.DEVNULL, stderr=subprocess.DEVNULL,
                       env={**os.environ, "PIP_NO_INDEX": "1", "PIP_DISABLE_PIP_VERSION_CHECK": "1"})
    except Exception:  # pylint: disable=broad-except
        return "fallback"
    return "icontract" if os.path.isdir(os.path.join(DEPS, "icontract")) else "fallback"


# ----------------------------------------------------------------------------- worker side
class Ctx:
    """What a check sees inside a worker."""

    MAX_WITNESS_PER_KEY = 4
    MAX_SAMPLES = 3

    def __init__(self, prop, tier, seed, shard, nshards, deadline_s):
        self.prop, self.tier, self.seed, self.shard, self.nshards = prop, tier, seed, shard, nshards
        self.rng = random.Random(shard_seed(seed, prop, shard))
        self.counters: Counter = Counter()
        self.maxima: dict = {}
        self.evaluations = 0
        self.all_hashes: set = set()
        self.nontrivial: set = set()
        self.samples: list = []
        self.violations: list = []
        self.violation_counts: Counter = Counter()
        self.case_inconclusive: Counter = Counter()
        self.notes: dict = {}
        self.t0 = time.monotonic()
        self.deadline_s = deadline_s
        self.stopped_by_deadline = False

    # -- budgets
    def share(self, total: int) -> int:
        """This shard's share of a total case budget."""
        base, rem = divmod(total, self.nshards)
        return base + (1 if self.shard < rem else 0)

    def my(self, items):
        """Deterministic partition of an enumerated space over shards."""
        return [x for i, x in enumerate(items) if i % self.nshards == self.shard]

    def time_left(self) -> bool:
        """Soft wall-clock budget: only ever reduces how many cases are generated, never a verdict."""
        if time.monotonic() - self.t0 > self.deadline_s:
            self.stopped_by_deadline = True
            return False
        return True

    # -- recording
    def case(self, case, nontrivial: bool = True, sample: bool = True) -> str:
        h = case_hash(case)
        self.evaluations += 1
        self.all_hashes.add(h)
        if nontrivial:
            self.nontrivial.add(h)
            if sample and len(self.samples) < self.MAX_SAMPLES:
                self.samples.append(jsonable(case))
        return h

    def count(self, name: str, n: int = 1):
        self.counters[name] += n

    def max(self, name: str, value: float):
        if value is None or (isinstance(value, float) and math.isnan(value)):
            return
        if name not in self.maxima or value > self.maxima[name]:
            self.maxima[name] = value

    def note(self, name: str, value):
        self.notes[name] = jsonable(value)

    def skip(self, reason: str):
        """A single case that could not be decided (reference not accurate enough, ...)."""
        self.case_inconclusive[reason] += 1

    def violation(self, key: str, what: str, case, **detail):
        """key: mechanism classifier ('C18.slow-air-speed-step') or a short free name of the broken clause."""
        self.violation_counts[key] += 1
        if sum(1 for v in self.violations if v["key"] == key) < self.MAX_WITNESS_PER_KEY:
            self.violations.append({"key": key, "what": what, "case": jsonable(case),
                                    "detail": jsonable(detail)})

    def result(self) -> dict:
        return {
            "shard": self.shard, "evaluations": self.evaluations,
            "all_hashes": sorted(self.all_hashes), "nontrivial": sorted(self.nontrivial),
            "samples": self.samples, "counters": dict(self.counters), "maxima": jsonable(self.maxima),
            "violations": self.violations, "violation_counts": dict(self.violation_counts),
            "case_inconclusive": dict(self.case_inconclusive), "notes": self.notes,
            "stopped_by_deadline": self.stopped_by_deadline, "wall_s": time.monotonic() - self.t0,
        }


def load_check(prop: str):
    return importlib.import_module(f"vf.checks.{prop.lower()}")


# ----------------------------------------------------------------------------- parent side
def _worker_env():
    env = dict(os.environ)
    env["PYTHONPATH"] = os.pathsep.join([ROOT, REPO])
    env["PYTHONHASHSEED"] = "0"
    env["PYTHONDONTWRITEBYTECODE"] = "1"
    env["VF_REPO"] = REPO
    env["VF_DEPS"] = DEPS
    env.pop("PYTHONSTARTUP", None)
    return env


def load_known_findings(prop: str):
    path = os.path.join(ROOT, "known_findings.json")
    try:
        with open(path, encoding="utf-8") as fp:
            data = json.load(fp)
    except FileNotFoundError:
        return {}
    return {e["key"]: e for e in data.get("findings", [])
            if e.get("property") == prop and e.get("status") == "known"}


def run_check(prop: str, tier: str, seed: int, replay_path: str | None = None) -> int:
    t0 = time.monotonic()
    check = load_check(prop)
    budget = check.budget(tier)
    nshards = 1 if replay_path else max(1, min(MAX_SHARDS, budget.get("shards", MAX_SHARDS)))
    deadline = float(budget.get("deadline_s", 60 if tier == "quick" else 900))
    # The soft deadline only ever reduces the number of cases.  The quick tier is bounded by its case counts; its deadline is
    # a generous cap (2.5 x the budget measured on a loaded 16-core machine) so that a slower machine still observes everything.
    deadline *= float(os.environ.get("VF_DEADLINE_SCALE", "2.5" if tier == "quick" else "1"))
    watchdog = deadline * 3 + 180
    contracts = ensure_deps()
    scratch = tempfile.mkdtemp(prefix=f"vf_{prop}_")
    procs = []
    try:
        for i in range(nshards):
            cwd = os.path.join(scratch, f"cwd{i}")
            os.makedirs(cwd)
            out = os.path.join(scratch, f"shard{i}.json")
            cmd = [PY, "-B", "-m", "vf.worker", "--prop", prop, "--tier", tier, "--seed", str(seed),
                   "--shard", str(i), "--nshards", str(nshards), "--out", out, "--deadline", str(deadline)]
            if replay_path:
                cmd += ["--replay", os.path.abspath(replay_path)]
            log = open(os.path.join(scratch, f"shard{i}.log"), "wb")  # pylint: disable=consider-using-with
            procs.append((i, out, log, subprocess.Popen(cmd, cwd=cwd, env=_worker_env(),
                                                        stdout=log, stderr=subprocess.STDOUT)))
        results, failures = [], []
        for i, out, log, proc in procs:
            remaining = max(1.0, watchdog - (time.monotonic() - t0))
            try:
                rc = proc.wait(timeout=remaining)
            except subprocess.TimeoutExpired:
                proc.kill()
                proc.wait()
                failures.append(f"shard {i}: wall-clock watchdog ({watchdog:.0f}s) fired")
                continue
            finally:
                log.close()
            if rc != 0 or not os.path.exists(out):
                with open(os.path.join(scratch, f"shard{i}.log"), "rb") as fp:
                    tail = fp.read()[-1500:].decode("utf-8", "replace")
                failures.append(f"shard {i}: worker exit {rc}: {tail}")
                continue
            with open(out, encoding="utf-8") as fp:
                results.append(json.load(fp))
        return _decide(prop, tier, seed, check, budget, results, failures, contracts,
                       time.monotonic() - t0, replay=bool(replay_path))
    finally:
        for _, _, _, proc in procs:
            if proc.poll() is None:
                proc.kill()
        shutil.rmtree(scratch, ignore_errors=True)


def _decide(prop, tier, seed, check, budget, results, failures, contracts, wall, replay=False) -> int:
    counters, vcounts, case_inc = Counter(), Counter(), Counter()
    maxima, notes = {}, {}
    all_hashes, nontrivial = set(), set()
    samples, violations = [], []
    evaluations = 0
    stopped = 0
    for r in results:
        evaluations += r["evaluations"]
        counters.update(r["counters"])
        vcounts.update(r["violation_counts"])
        case_inc.update(r["case_inconclusive"])
        all_hashes.update(r["all_hashes"])
        nontrivial.update(r["nontrivial"])
        for k, v in r["maxima"].items():
            if isinstance(v, (int, float)) and (k not in maxima or v > maxima[k]):
                maxima[k] = v
        notes.update(r["notes"])
        if len(samples) < 6:
            samples.extend(r["samples"][:2])
        violations.extend(r["violations"])
        stopped += 1 if r["stopped_by_deadline"] else 0
        if r.get("crash"):
            failures.append(f"shard {r['shard']}: check code stopped on an unexpected exception after "
                            f"{r['evaluations']} cases: {r['crash']}")

    known = load_known_findings(prop)
    lines, real, known_seen = [], [], Counter()
    replay_dir = os.path.join(OUT, "replay", prop)
    for v in violations:
        if v["key"] in known:
            known_seen[v["key"]] += 1
            continue
        real.append(v)
    for key in sorted(set(vcounts) & set(known)):
        lines.append(f"KNOWN-FINDING: property={prop} {key}: {known[key]['what']} "
                     f"(observed {vcounts[key]}x in this run)")
    written = set()
    for v in real:
        os.makedirs(replay_dir, exist_ok=True)
        name = f"{v['key'].replace('/', '_')}_{case_hash(v['case'])}.json"
        path = os.path.join(replay_dir, name)
        if path in written:
            continue
        written.add(path)
        with open(path, "w", encoding="utf-8") as fp:
            json.dump({"property": prop, "key": v["key"], "what": v["what"], "case": v["case"],
                       "detail": v["detail"], "seed": seed, "tier": tier}, fp, indent=1, sort_keys=True)
        lines.append(f"VIOLATION property={prop} replay={os.path.relpath(path, OUT)}  [{v['key']}] {v['what']}")

    n_real = sum(c for k, c in vcounts.items() if k not in known)

    # inconclusive?
    reasons = list(failures)
    must = [] if replay else list(getattr(check, "MUST_OBSERVE", []))
    for name in must:
        if counters.get(name, 0) <= 0:
            reasons.append(f"deciding monitor counter '{name}' is zero")
    n_inc = sum(case_inc.values())
    if not replay and evaluations and n_inc > 0.2 * (evaluations + n_inc):
        reasons.append(f"{n_inc} of {evaluations + n_inc} cases individually inconclusive: {dict(case_inc)}")
    if not replay and len(nontrivial) < 2:
        reasons.append("fewer than 2 distinct non-trivial cases")

    evidence = {
        "property_id": prop, "tier": tier, "seed": seed, "level": LEVEL,
        "coverage": {
            "evaluations": evaluations,
            "distinct_nontrivial": len(nontrivial),
            "distinct_cases": len(all_hashes),
            "rule": getattr(check, "RULE", ""),
            "samples": samples[:6],
            "counters": dict(sorted(counters.items())),
            "maxima": dict(sorted(maxima.items())),
            "notes": notes,
            "must_observe": must,
            "cases_individually_inconclusive": dict(case_inc),
            "shards": len(results), "shards_stopped_by_soft_deadline": stopped,
            "worker_failures": failures,
            "contracts_backend": contracts,
            "repo": REPO,
            "known_findings_observed": {k: vcounts[k] for k in vcounts if k in known},
            "violation_counts": {k: vcounts[k] for k in vcounts if k not in known},
            "verdict": "violated" if n_real else ("inconclusive" if reasons else "held"),
            "exhaustive": bool(getattr(check, "EXHAUSTIVE", False)),
        },
        "assumptions": list(getattr(check, "ASSUMPTIONS", [])),
        "wall_s": round(wall, 2),
        "violations": n_real,
    }
    if not replay:
        os.makedirs(os.path.join(OUT, "evidence"), exist_ok=True)
        with open(os.path.join(OUT, "evidence", f"{prop}.json"), "w", encoding="utf-8") as fp:
            json.dump(jsonable(evidence), fp, indent=1)

    max_lines = int(os.environ.get("VF_MAX_LINES", "40"))
    for line in lines[:max_lines]:
        print(line)
    if len(lines) > max_lines:
        print(f"... {len(lines) - max_lines} more VIOLATION/KNOWN-FINDING lines suppressed "
              f"(all witnesses are under replay/{prop}/; counts by key: {dict(vcounts)})")
    summary = (f"{prop} {tier} seed={seed}: evaluations={evaluations} distinct_nontrivial={len(nontrivial)} "
               f"violations={n_real} known={sum(known_seen.values())} wall={wall:.1f}s "
               f"counters={dict(sorted(counters.items()))}")
    print(summary)
    if n_real:
        return 1
    if reasons:
        for r in reasons:
            print(f"INCONCLUSIVE property={prop} reason={r}")
        return 2
    return 0


# ----------------------------------------------------------------------------- worker entry
def worker_main(argv=None) -> int:
    import argparse
    ap = argparse.ArgumentParser()
    ap.add_argument("--prop", required=True)
    ap.add_argument("--tier", default="quick")
    ap.add_argument("--seed", type=int, default=0)
    ap.add_argument("--shard", type=int, default=0)
    ap.add_argument("--nshards", type=int, default=1)
    ap.add_argument("--out", required=True)
    ap.add_argument("--deadline", type=float, default=60)
    ap.add_argument("--replay")
    a = ap.parse_args(argv)

    deps = os.environ.get("VF_DEPS")
    if deps and os.path.isdir(deps) and deps not in sys.path:
        sys.path.append(deps)  # at the END: .deps carries a private typing_extensions that must not shadow the repo's

    import warnings
    warnings.simplefilter("ignore")
    import py_ballisticcalc  # noqa  pylint: disable=import-outside-toplevel
    repo = os.path.abspath(os.environ.get("VF_REPO", "/repo"))
    assert os.path.abspath(py_ballisticcalc.__file__).startswith(repo + os.sep), \
        f"py_ballisticcalc imported from {py_ballisticcalc.__file__}, expected under {repo}"
    from py_ballisticcalc.trajectory_calc import TrajectoryCalc  # pylint: disable=import-outside-toplevel

    ctx = Ctx(a.prop, a.tier, a.seed, a.shard, a.nshards, a.deadline)
    ctx.note("backend", TrajectoryCalc.__module__)
    ctx.note("python", sys.version.split()[0])
    check = load_check(a.prop)
    crash = None
    try:
        if a.replay:
            with open(a.replay, encoding="utf-8") as fp:
                rec = json.load(fp)
            check.replay(ctx, rec["case"])
        else:
            check.run(ctx)
    except BaseException:  # pylint: disable=broad-except
        import traceback
        crash = traceback.format_exc()[-2500:]
    res = ctx.result()
    res["crash"] = crash
    with open(a.out, "w", encoding="utf-8") as fp:
        json.dump(res, fp)
    return 0
