"""Generators of explicit case specs (see build.py for the spec format).  Everything is drawn from the rng
handed in, so a (VERIF_SEED, property, shard) triple reproduces the workload."""
import math

from vf.build import TABLE_NAMES


def r(rng, lo, hi, nd=6):
    return round(rng.uniform(lo, hi), nd)


def custom_table(rng, n=None):
    """3..40 strictly ascending Mach nodes (first node at Mach 0 or not), CD in 0.05..1.0."""
    n = n or rng.choice([3, 4, 5, 8, 12, 20, 40])
    # radar-style tables need not start at Mach 0
    m = rng.choice([0.0, 0.0, round(rng.uniform(0.2, 0.9), 3)])
    machs = [m]
    # a stretch sampled every few thousandths of Mach (kept away from the table's end: a parabola through three such nodes,
    # extrapolated whole Mach numbers beyond the table, amplifies the last bits of its coefficients beyond any data-derived tolerance)
    fine = rng.randrange(1, n - 9) if rng.random() < 0.2 and n >= 12 else None
    for k in range(n - 1):
        if fine is not None and fine <= k < fine + 6:
            m += rng.uniform(0.002, 0.007)
        else:
            m += rng.choice([rng.uniform(0.01, 0.05), rng.uniform(0.05, 0.3), rng.uniform(0.3, 0.8)])
        machs.append(round(m, 5))
    cd = rng.uniform(0.15, 0.6)
    out = []
    for mach in machs:
        cd = min(1.0, max(0.05, cd + rng.uniform(-0.08, 0.08)))
        out.append([mach, round(cd, 5)])
    if rng.random() < 0.06 and len(out) >= 7:
        # seam rows of a table stitched from two sources: two strictly ascending Mach numbers a few ulps apart with the same Cd
        i = rng.randrange(1, len(out) - 4)      # (not among the last three nodes: they carry the extrapolation beyond the table)
        m = out[i][0]
        for _ in range(rng.choice([1, 3, 40])):
            m = math.nextafter(m, math.inf)
        out.insert(i + 1, [m, out[i][1]])     # (a different Cd there would make every interpolant through the pair ill-conditioned beyond any tolerance)
    return out


def smooth_table(rng, n=None):
    """A physically usable custom table for solver workloads: Mach 0 .. >= 5.5 (covers every launch speed generated),
    neighbouring gaps within a factor 3 of each other and Cd changing by at most 0.25 per unit Mach step-wise, so the
    piecewise parabolas stay positive and bounded (a table whose interpolant goes negative makes any solver run away;
    that says nothing about the solver)."""
    n = n or rng.choice([6, 10, 16, 25, 40])
    gaps, g = [], rng.uniform(0.5, 1.5)
    for _ in range(n - 1):
        g = min(3.0, max(0.33, g * rng.uniform(0.6, 1.6)))
        gaps.append(g)
    span = rng.uniform(5.5, 7.0)
    k = span / sum(gaps)
    m, cd, out = 0.0, rng.uniform(0.2, 0.6), []
    out.append([0.0, round(cd, 5)])
    for gap in gaps:
        m += gap * k
        cd = min(0.95, max(0.12, cd + rng.uniform(-0.25, 0.25) * gap * k))
        out.append([round(m, 5), round(cd, 5)])
    return out


def atmo(rng, vacuum_ok=False):
    k = rng.random()
    if vacuum_ok and k < 0.1:
        return {"kind": "vacuum", "alt_ft": r(rng, 0, 5000, 1), "t_c": r(rng, -20, 40, 1)}
    if k < 0.35:
        return {"kind": "icao", "alt_ft": 0.0}
    if k < 0.6:
        return {"kind": "icao", "alt_ft": r(rng, -1000, 12000, 1)}
    return {"kind": "station", "alt_ft": r(rng, 0, 9000, 1), "p_hpa": r(rng, 600, 1050, 2),
            "t_c": r(rng, -30, 45, 2), "rh": r(rng, 0, 100, 1)}


def winds(rng, n=None, max_speed=60.0, range_ft=3000.0):
    n = rng.choice([0, 0, 1, 1, 2, 3, 4]) if n is None else n
    out = []
    for _ in range(n):
        speed = rng.choice([0.0, r(rng, 1, 15, 3), r(rng, 15, max_speed, 3)])
        direction = rng.choice([0.0, 90.0, 180.0, 270.0, r(rng, 0, 360, 3)])
        until = rng.choice([r(rng, 10, range_ft, 2), r(rng, 10, range_ft, 2), r(rng, range_ft, 3 * range_ft, 2)])
        out.append([speed, direction, until])
    if out and rng.random() < 0.5:
        out[-1][2] = None
    rng.shuffle(out)
    return out


def shot(rng, *, flat=False, twist=True, custom=0.15, look=True, cant=True, vacuum_ok=False,
         mv_lo=300.0, mv_hi=3500.0, wind_n=None, wind_max=60.0, range_ft=3000.0, dims=True):
    tbl = smooth_table(rng) if rng.random() < custom else rng.choice(TABLE_NAMES)
    bc = rng.choice([r(rng, 0.05, 0.2, 4), r(rng, 0.2, 0.7, 4), r(rng, 0.7, 1.2, 4)])
    split = min(max(1100.0, mv_lo), mv_hi)
    mv = rng.choice([r(rng, mv_lo, split, 1), r(rng, split, mv_hi, 1)])
    s = {"table": tbl, "bc": bc, "mv_fps": mv}
    if dims and rng.random() < 0.8:
        s.update(weight_gr=r(rng, 50, 750, 1), diameter_in=r(rng, 0.2, 0.6, 3), length_in=r(rng, 0.5, 2.5, 3))
    elif dims and rng.random() < 0.5:
        s.update(weight_gr=r(rng, 50, 750, 1))
    s["sight_height_in"] = rng.choice([0.0, r(rng, -2, 0, 2), r(rng, 0.5, 5, 2)])
    s["twist_in"] = rng.choice([0.0, r(rng, 6, 14, 1), -r(rng, 6, 14, 1)]) if twist else 0.0
    s["zero_deg"] = rng.choice([0.0, r(rng, -0.2, 1.0, 4)])
    s["look_deg"] = rng.choice([0.0, 0.0, r(rng, -45, 45, 3)]) if look else 0.0
    s["rel_deg"] = 0.0 if flat else rng.choice([0.0, r(rng, -2, 10, 3), r(rng, 0, 40, 3)])
    # (a rifle rolled past the horizontal - 120, -135, 180 deg - is a cant angle like any other)
    s["cant_deg"] = rng.choice([0.0, 0.0, 0.0, r(rng, -90, 90, 2), r(rng, -90, 90, 2), rng.choice([-1, 1]) * r(rng, 90, 180, 2)]) if cant else 0.0
    s["atmo"] = atmo(rng, vacuum_ok)
    s["winds"] = winds(rng, wind_n, wind_max, range_ft)
    if rng.random() < 0.2:
        # build.shot reaches this shot by modifying other objects (see build._restated_shot): constructed final, used in a decoy
        # state and put back (True) - or constructed in another state and given the final values by assignment ("assign")
        s["_restate"] = rng.choice([True, "assign"])
    return s


def elevation_rad(s):
    """Barrel elevation / azimuth implied by the spec (formulas from the property text, not from the library)."""
    cant = math.radians(s.get("cant_deg", 0.0))
    hold = math.radians(s.get("zero_deg", 0.0)) + math.radians(s.get("rel_deg", 0.0))
    return math.radians(s.get("look_deg", 0.0)) + math.cos(cant) * hold, math.sin(cant) * hold
