"""R-SI: exact SI definitions of the library's 41 units, written independently of the library (Fractions).

linear units: value of one unit in the dimension's SI base unit.
affine (temperature): kelvin = (x + offset) * scale.
tangent units: angle[rad] = atan(x / per), x = tan(angle) * per.
"""
import math
from fractions import Fraction as F

INCH = F(254, 10000)            # m, exact
POUND = F(45359237, 100000000)  # kg, exact
GRAIN = POUND / 7000            # 64.79891 mg, exact
G0 = F(980665, 100000)          # m/s^2, exact
NMI = F(1852)                   # m, exact
MMHG = F(133322387415, 10 ** 9)  # Pa, conventional mmHg
PI = F(math.pi)                 # the float pi as an exact rational: conversions are compared in float precision

LINEAR = {
    "Distance": {"Inch": INCH, "Foot": 12 * INCH, "Yard": 36 * INCH, "Mile": 63360 * INCH, "NauticalMile": NMI,
                 "Millimeter": F(1, 1000), "Centimeter": F(1, 100), "Meter": F(1), "Kilometer": F(1000),
                 "Line": INCH / 10},
    "Pressure": {"MmHg": MMHG, "InHg": MMHG * F(254, 10), "Bar": F(100000), "hPa": F(100),
                 "PSI": POUND * G0 / (INCH * INCH)},
    "Weight": {"Grain": GRAIN, "Ounce": POUND / 16, "Gram": F(1, 1000), "Pound": POUND, "Kilogram": F(1),
               "Newton": 1 / G0},
    "Velocity": {"MPS": F(1), "KMH": F(10, 36), "FPS": 12 * INCH, "MPH": 63360 * INCH / 3600, "KT": NMI / 3600},
    "Energy": {"FootPound": 12 * INCH * POUND * G0, "Joule": F(1)},
    "Angular": {"Radian": F(1), "Degree": PI / 180, "MOA": PI / 10800, "Mil": 2 * PI / 6400, "MRad": F(1, 1000),
                "Thousandth": 2 * PI / 6000, "OClock": 2 * PI / 12},
}
TANGENT = {"InchesPer100Yd": 3600.0, "CmPer100m": 10000.0}   # x per `per` of the same length unit
# kelvin = (x + offset) * scale
AFFINE = {"Kelvin": (0.0, 1.0), "Celsius": (273.15, 1.0), "Fahrenheit": (459.67, 5.0 / 9.0), "Rankin": (0.0, 5.0 / 9.0)}

DIMENSIONS = {
    "Angular": list(LINEAR["Angular"]) + list(TANGENT),
    "Distance": list(LINEAR["Distance"]), "Energy": list(LINEAR["Energy"]), "Pressure": list(LINEAR["Pressure"]),
    "Temperature": list(AFFINE), "Velocity": list(LINEAR["Velocity"]), "Weight": list(LINEAR["Weight"]),
}
N_UNITS = sum(len(v) for v in DIMENSIONS.values())
assert N_UNITS == 41


def to_base(dim: str, unit: str, x: float) -> float:
    """x [unit] -> SI base (m, Pa, kg, m/s, J, rad, K)."""
    if dim == "Temperature":
        off, scale = AFFINE[unit]
        return (x + off) * scale
    if unit in TANGENT:
        return math.atan(x / TANGENT[unit])
    return float(F(x) * LINEAR[dim][unit])


def from_base(dim: str, unit: str, b: float) -> float:
    if dim == "Temperature":
        off, scale = AFFINE[unit]
        return b / scale - off
    if unit in TANGENT:
        return math.tan(b) * TANGENT[unit]
    return float(F(b) / LINEAR[dim][unit])


def convert(dim: str, a: str, b: str, x: float) -> float:
    """Expected value of x[a] expressed in b."""
    if dim != "Temperature" and a not in TANGENT and b not in TANGENT:
        return float(F(x) * LINEAR[dim][a] / LINEAR[dim][b])   # one rounding
    return from_base(dim, b, to_base(dim, a, x))


def condition(dim: str, a: str, b: str, x: float) -> float:
    """Amplification of relative rounding error by the tangent maps (1 for linear/affine)."""
    if dim != "Angular" or (a not in TANGENT and b not in TANGENT):
        return 1.0
    theta = abs(to_base(dim, a, x))
    if theta < 1e-300:
        return 1.0
    sc = abs(math.sin(theta) * math.cos(theta))
    return max(1.0, theta / sc) if sc > 0 else float("inf")
