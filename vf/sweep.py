"""Sweep:  python -m vf.sweep --tier quick --seeds 0,1,2,3,7,42 [--props C01,C02] [--out DIR]
Runs every (property, seed) from a fresh process into a scratch output directory (evidence under /verif is not touched)
and prints one line per run; exit 1 if any run did not exit 0.  Used to hunt false alarms on the unchanged tree."""
import argparse
import os
import subprocess
import sys
import tempfile
import time

ROOT = os.path.dirname(os.path.dirname(os.path.abspath(__file__)))


def main():
    ap = argparse.ArgumentParser()
    ap.add_argument("--tier", default="quick")
    ap.add_argument("--seeds", default="0,1,2,3,7,42")
    ap.add_argument("--props", default=",".join(f"C{i:02d}" for i in range(1, 21)))
    ap.add_argument("--out", default=None)
    a = ap.parse_args()
    out = a.out or tempfile.mkdtemp(prefix="vf_sweep_")
    bad = 0
    for prop in a.props.split(","):
        for seed in a.seeds.split(","):
            t0 = time.time()
            env = {**os.environ, "VF_OUT": os.path.join(out, f"{prop}_{seed}"), "VERIF_SEED": seed, "PYTHONHASHSEED": "0"}
            r = subprocess.run([sys.executable, "-m", "vf.run", prop, "--tier", a.tier], cwd=ROOT, env=env, capture_output=True, text=True)
            lines = [l for l in r.stdout.splitlines() if l.startswith(("VIOLATION", "INCONCLUSIVE"))]
            status = "ok" if r.returncode == 0 else f"EXIT {r.returncode}"
            if r.returncode != 0:
                bad += 1
            print(f"{prop} seed={seed} {a.tier}: {status} {time.time() - t0:.0f}s " + (" | ".join(l[:200] for l in lines[:3])), flush=True)
    print(f"sweep done: {bad} runs not clean; outputs in {out}")
    return 1 if bad else 0


if __name__ == "__main__":
    sys.exit(main())
