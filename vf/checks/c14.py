"""C14 - multi-BC drag models realise the interpolated BC and leave inputs intact.

Monitor shape: effective-BC law (independent clamped piecewise-linear interpolation) + deep input snapshots before /
after + repeated construction on the real DragModelMultiBC."""
import copy
import math

import py_ballisticcalc as pb
from py_ballisticcalc import (BCPoint, Calculator, Distance, DragDataPoint, DragModel, DragModelMultiBC, Unit, Weight)

from vf import build
from vf.build import TABLE_NAMES, reset_globals

ID = "C14"
RULE = ("random BC point lists (1-6 points, distinct Mach, by Mach or by velocity in any velocity unit, shuffled) x table "
        "form (shipped dict list | DragDataPoint list taken from a donor model | fresh DragDataPoint list | custom table) "
        "x with/without weight+diameter; each case builds the model twice; non-trivial when there are >= 2 points and "
        "the table is given as DragDataPoint objects or the points are out of order")
MUST_OBSERVE = ["points_by_bare_velocity", "models_built", "nodes_checked", "form_dicts", "form_donor_points", "form_fresh_points", "with_weight",
                "without_weight", "single_point_equivalence", "single_point_fired", "by_velocity", "by_mach",
                "shuffled_points", "second_builds", "donor_unchanged_checks", "foreign_model_tuned",
                "prior_model_same_nodes_other_bcs", "points_beyond_the_table"]
ASSUMPTIONS = ["velocity points are converted to Mach with the standard 15 C speed of sound sqrt(288.15) x 20.0467 m/s",
               "the order of the caller's BC point list is not asserted (sorting it changes neither the table nor the points)"]
VU = {"MPS": 1.0, "FPS": 0.3048, "KMH": 1 / 3.6, "MPH": 0.44704, "KT": 1852 / 3600}
C_STD = math.sqrt(288.15) * 20.0467
REL = 1e-9


def budget(tier):
    return {"shards": 14, "deadline_s": 45 if tier == "quick" else 900}


def interp(points, m):
    """Clamped piecewise-linear interpolation of (mach, bc) pairs, written out independently."""
    pts = sorted(points)
    if m <= pts[0][0]:
        return pts[0][1]
    if m >= pts[-1][0]:
        return pts[-1][1]
    for (m0, b0), (m1, b1) in zip(pts, pts[1:]):
        if m0 <= m <= m1:
            return b0 + (b1 - b0) * (m - m0) / (m1 - m0)
    raise AssertionError


def snap_table(tbl):
    return [(("dict", p["Mach"].hex() if isinstance(p["Mach"], float) else p["Mach"], float(p["CD"]).hex()) if isinstance(p, dict)
             else ("pt", float(p.Mach).hex(), float(p.CD).hex())) for p in tbl]


def snap_points(pts):
    return sorted((float(p.BC).hex(), float(p.Mach).hex(), float(p.V.raw_value).hex()) for p in pts)


def std_cd(case):
    t = case["table"]
    if isinstance(t, str):
        return [(p["Mach"], p["CD"]) for p in getattr(pb, "Table" + t)]
    return [(m, c) for m, c in t]


def mk_points(case):
    pts = []
    for p in case["points"]:
        if p.get("v_mps") is not None and case.get("bare_velocities_in"):
            # velocities as bare numbers of the session's preferred velocity unit
            pb.PreferredUnits.velocity = Unit[case["bare_velocities_in"]]
            pts.append(BCPoint(p["bc"], V=p["v_mps"] / VU[case["bare_velocities_in"]]))
        elif p.get("v_mps") is not None:
            pts.append(BCPoint(p["bc"], V=Unit[p["unit"]](p["v_mps"] / VU[p["unit"]])))
        else:
            pts.append(BCPoint(p["bc"], Mach=p["mach"]))
    return pts


def expected_mach(p):
    return p["mach"] if p.get("v_mps") is None else p["v_mps"] / C_STD


def check_case(ctx, case):
    reset_globals()
    std = std_cd(case)
    donor = None
    form = case["form"]
    ctx.count("form_" + form)
    if form == "dicts":
        table_arg = build.table(case["table"]) if not isinstance(case["table"], str) else getattr(pb, "Table" + case["table"])
        if isinstance(case["table"], str):
            golden = copy.deepcopy(table_arg)
    elif form == "donor_points":
        donor = DragModel(0.5, build.table(case["table"]))
        table_arg = donor.drag_table
    else:
        table_arg = [DragDataPoint(m, c) for m, c in std]
    kw = {}
    if case.get("weight_gr"):
        kw = {"weight": Weight.Grain(case["weight_gr"]), "diameter": Distance.Inch(case["diameter_in"])}
        ctx.count("with_weight")
    else:
        ctx.count("without_weight")
    if case.get("prior_bc_factors"):
        # an earlier model of the same session: same table content, same bullet, BC points at the very same Mach numbers /
        # velocities but with other BC values (two bullets whose stepped BCs are quoted for the same velocity bands)
        ctx.count("prior_model_same_nodes_other_bcs")
        prior_case = dict(case, points=[dict(p, bc=round(p["bc"] * f, 4)) for p, f in zip(case["points"], case["prior_bc_factors"])])
        prior_table = table_arg if form == "dicts" else [DragDataPoint(m, c) for m, c in std]
        for _ in range(2):
            DragModelMultiBC(mk_points(prior_case), prior_table, **kw)
    pts = mk_points(case)
    if case.get("bare_velocities_in"):
        ctx.count("points_by_bare_velocity")
    for bp, p in zip(pts, case["points"]):
        if not abs(bp.Mach - expected_mach(p)) <= 1e-6 * expected_mach(p):
            ctx.violation("point-mach", f"BCPoint Mach {bp.Mach!r}, expected {expected_mach(p)!r}", case)
    ctx.count("by_velocity" if any(p.get("v_mps") is not None for p in case["points"]) else "by_mach")
    ordered = [expected_mach(p) for p in case["points"]]
    shuffled = ordered != sorted(ordered)
    if shuffled:
        ctx.count("shuffled_points")
    if max(ordered) > std[-1][0] or min(ordered) < std[0][0]:
        ctx.count("points_beyond_the_table")
    law_pts = [(bp.Mach, bp.BC) for bp in pts]     # the library's own Mach reading of velocity points (checked above)
    before_t, before_p = snap_table(table_arg), snap_points(pts)
    donor_before = snap_table(donor.drag_table) if donor else None

    models = []
    for build_no in (1, 2):
        dm = DragModelMultiBC(pts, table_arg, **kw)
        models.append(dm)
        ctx.count("models_built")
        if build_no == 2:
            ctx.count("second_builds")
        after_t, after_p = snap_table(table_arg), snap_points(pts)
        if after_t != before_t:
            i = next(i for i, (a, b) in enumerate(zip(before_t, after_t)) if a != b)
            ctx.violation("input-table-altered", f"build #{build_no} changed the table passed in (entry {i}: {before_t[i]} -> {after_t[i]})",
                          case, build=build_no)
            before_t = after_t
        if after_p != before_p:
            ctx.violation("input-points-altered", f"build #{build_no} changed a BC point passed in", case, build=build_no)
            before_p = after_p
        if donor is not None:
            ctx.count("donor_unchanged_checks")
            if snap_table(donor.drag_table) != donor_before:
                ctx.violation("donor-model-altered", f"build #{build_no} changed the drag table of the model the points were taken from",
                              case, build=build_no)
                donor_before = snap_table(donor.drag_table)
        # effective-BC law at every table node
        if len(dm.drag_table) != len(std):
            ctx.violation("table-length", "model table length differs from the input table", case)
            continue
        for (m, cd_std), node in zip(std, dm.drag_table):
            ctx.count("nodes_checked")
            if node.Mach != m:
                ctx.violation("node-mach", f"node Mach {node.Mach!r} != input {m!r}", case)
                break
            bc_eff = cd_std * dm.BC / node.CD
            want = interp(law_pts, m)
            if not abs(bc_eff - want) <= REL * want:
                ctx.violation("effective-bc", f"build #{build_no}: effective BC at Mach {m} is {bc_eff!r}, interpolation of the points gives {want!r}",
                              case, mach=m, got=bc_eff, want=want, build=build_no)
                break
    a, b = models
    if (a.BC, [(p.Mach, p.CD) for p in a.drag_table]) != (b.BC, [(p.Mach, p.CD) for p in b.drag_table]):
        ctx.violation("second-build-differs", "building twice from the same inputs gives different models", case)
    if form == "dicts" and isinstance(case["table"], str) and golden != table_arg:
        ctx.violation("shipped-table-altered", f"module table Table{case['table']} changed", case)

    if len(case["points"]) == 1:
        ctx.count("single_point_equivalence")
        bc1 = case["points"][0]["bc"]
        plain = DragModel(bc1, build.table(case["table"]), **kw)
        for pa, pb_ in zip(a.drag_table, plain.drag_table):
            if not abs(pa.CD / a.BC - pb_.CD / plain.BC) <= REL * pb_.CD / plain.BC:
                ctx.violation("single-point.cd-over-bc", f"single-point model differs from DragModel({bc1}) at Mach {pa.Mach}", case)
                break
        if case.get("fire"):
            ctx.count("single_point_fired")
            s = {"table": "G7", "bc": 0.3, "mv_fps": case["fire"]["mv_fps"], "sight_height_in": 2.0}
            sa, sb = build.shot(s), build.shot(s)
            sa.ammo.dm, sb.ammo.dm = a, plain
            def rows_of(sh):
                try:
                    return list(Calculator().fire(sh, Distance.Foot(1500), Distance.Foot(300)))
                except pb.RangeError as err:
                    return list(err.incomplete_trajectory)
            ra, rb = rows_of(sa), rows_of(sb)
            if len(ra) != len(rb):
                ctx.violation("single-point.trajectory", f"trajectories have {len(ra)} vs {len(rb)} rows", case)
            for x, y in zip(ra, rb):
                for f in ("height", "velocity", "distance"):
                    va, vb = getattr(x, f).raw_value, getattr(y, f).raw_value
                    if not abs(va - vb) <= 1e-9 * max(abs(vb), 1.0):
                        ctx.violation("single-point.trajectory", f"trajectory {f} differs: {va!r} vs {vb!r}", case)
                        break
    if form == "dicts" and isinstance(case["table"], str):
        # somebody tunes a model of their own that was built from the same shipped table (edits its points through the public
        # attributes): the shipped table, and every model built from it afterwards, must not notice
        ctx.count("foreign_model_tuned")
        mine = DragModel(0.4, table_arg)
        for p in mine.drag_table[::2]:
            p.CD *= 1.17
        for p in a.drag_table[1::3]:
            p.CD *= 0.9
        c3 = DragModelMultiBC(pts, table_arg, **kw)
        if [(p.Mach, p.CD) for p in c3.drag_table] != [(p.Mach, p.CD) for p in b.drag_table] or c3.BC != b.BC:
            i = next((i for i, (x, y) in enumerate(zip(c3.drag_table, b.drag_table)) if x.CD != y.CD), -1)
            ctx.violation("build-after-foreign-edit-differs", f"after the points of *another* model built from Table{case['table']} were edited, "
                                                              f"building from the same inputs gives a different model (entry {i})", case)
        plain2 = DragModel(0.4, table_arg)
        if [p.CD for p in plain2.drag_table] != [p["CD"] for p in table_arg]:
            ctx.violation("plain-model-after-foreign-edit", f"DragModel(0.4, Table{case['table']}) no longer carries the shipped Cd values after another model's points were edited", case)
    nontrivial = len(case["points"]) >= 2 and (form != "dicts" or shuffled)
    ctx.case(case, nontrivial=nontrivial)
    reset_globals()


def gen_case(rng):
    from vf import gen
    n = rng.choice([1, 1, 2, 3, 4, 6])
    machs = set()
    while len(machs) < n:
        machs.add(round(rng.uniform(0.3, 4.0) if rng.random() < 0.9 else rng.uniform(4.0, 6.5), 3))      # shipped tables end at Mach 4 or 5
    by_v = rng.random() < 0.5
    pts = []
    for m in machs:
        bc = round(rng.uniform(0.1, 0.9), 4)
        if by_v:
            pts.append({"bc": bc, "v_mps": round(m * C_STD, 3), "unit": rng.choice(list(VU))})
        else:
            pts.append({"bc": bc, "mach": m})
    rng.shuffle(pts)
    table = gen.custom_table(rng) if rng.random() < 0.2 else rng.choice(TABLE_NAMES)
    case = {"points": pts, "table": table, "form": rng.choice(["dicts", "donor_points", "donor_points", "fresh_points"])}
    if by_v and rng.random() < 0.3:
        case["bare_velocities_in"] = rng.choice(list(VU))
    if rng.random() < 0.5:
        case.update(weight_gr=round(rng.uniform(40, 750), 1), diameter_in=round(rng.uniform(0.17, 0.6), 3))
    if rng.random() < 0.3:
        case["prior_bc_factors"] = [round(rng.uniform(0.5, 1.6), 3) for _ in pts]
    if n == 1 and isinstance(table, str) and rng.random() < 0.4:
        case["fire"] = {"mv_fps": round(rng.uniform(800, 3200), 0)}
    return case


def run(ctx):
    total = 9000 if ctx.tier == "quick" else 300000
    for _ in range(ctx.share(total)):
        if not ctx.time_left():
            break
        check_case(ctx, gen_case(ctx.rng))


def replay(ctx, case):
    check_case(ctx, {k: v for k, v in case.items()})
