"""C01 - trajectory is the solution of the point-mass equations of motion.

Monitor shape: differential run of the real solver at 3-4 step sizes against an independent RK4 integration of the
stated ODE (R-ODE; drag function and atmosphere taken as the black boxes the property names) and, in vacuum, the
closed-form parabola.  Bounded restatement of 'converges as the step is refined': the error toward the reference must
shrink by at least a quarter per halving over 2 (quick) / 3 (thorough) halvings and the default-step error must stay
within a small multiple of the change seen on halving."""
import math

import py_ballisticcalc as pb
from py_ballisticcalc import Distance, Velocity

from vf import build, gen, monitors, refs

ID = "C01"
RULE = ("random shots with twist 0 (all shipped tables + smooth custom tables, BC 0.05-1.2, 300-3500 ft/s, sight heights, look "
        "+-45 deg, zero / relative angles to 40 deg, cant to +-90 deg, ICAO / altitude / arbitrary station / vacuum, 0-4 wind "
        "segments incl. boundaries inside / at / beyond the range and opposing winds), ranges 300-4500 ft, 6-12 recorded "
        "distances; each fired at step h0, h0/2, h0/4 (thorough: also h0/8, and h0 in {0.5, 0.25, 0.125}); a case = (shot, range, h0); "
        "non-trivial when the shot has wind, a non-zero look / cant angle, an altitude change above 30 ft or is a vacuum shot")
MUST_OBSERVE = ["shots_with_debug_logging_on", "shots_exact_line_table", "shots", "rows_compared", "shots_with_wind_switch_inside_range", "shots_altitude_change_over_30ft", "vacuum_shots",
                "shots_canted", "shots_inclined", "halvings_checked", "muzzle_rows_checked", "reference_runs"]
ASSUMPTIONS = ["R-ODE (vf/refs.py): RK4, dt = h_ref/|v-w|, lands exactly on wind boundaries and recorded distances; run at h_ref and "
               "2 h_ref, the difference is its own error estimate e_ref and enters every tolerance (x10); h_ref is halved from 0.05 ft "
               "until e_ref <= 5e-4 ft, else the case is individually inconclusive",
               "Atmo.get_density_factor_and_mach_for_altitude and TrajectoryCalc.drag_by_mach are black-box coefficient functions (C08 / C09) - except "
               "for the 'exact line' class (10 % of the shots): a custom table sampled from one straight line ending just above the launch Mach "
               "number, for which the reference evaluates the line itself x 2.08551e-4 / BC and never asks the library for drag",
               "floors: rounding {1e-4 ft, 1e-4 ft, 1e-3 ft/s, 1e-6 s} + derived bound for a wind switch taking effect up to one step late"]
ROUND = {"y": 1e-4, "z": 1e-4, "v": 1e-3, "t": 1e-6}
COMPONENTS = ("y", "z", "v", "t")


def budget(tier):
    return {"shards": 14, "deadline_s": 90 if tier == "quick" else 2400}


def solver_rows(spec, h, r_ft, step_ft, trace=None, debug=False):
    calc = build.calculator({"max_calc_step_size_feet": h, "cMinimumVelocity": 0.0})
    shot = build.shot(spec)
    if debug:
        pb.set_debug(True)          # the library's public debug-logging switch: what is logged must not change what is computed
    try:
        return _solver_rows(calc, shot, r_ft, step_ft, trace)
    finally:
        if debug:
            pb.set_debug(False)


def _solver_rows(calc, shot, r_ft, step_ft, trace):
    with monitors.quiet():
        if trace is not None:
            with trace:
                hit = calc.fire(shot, Distance.Foot(r_ft), Distance.Foot(step_ft))
        else:
            hit = calc.fire(shot, Distance.Foot(r_ft), Distance.Foot(step_ft))
    out = {}
    for r in hit:
        x = r.distance >> Distance.Foot
        out[round(x / step_ft)] = {"x": x, "y": r.height >> Distance.Foot, "z": r.windage >> Distance.Foot,
                                   "v": r.velocity >> Velocity.FPS, "t": r.time}
    return out, list(hit)


def reference(spec, xs, shot, tc, line=None):
    """R-ODE at h and 2h; halve h until the reference certifies itself.  Returns (states, e_ref per component, result, h) or None."""
    alt0 = shot.atmo.altitude >> Distance.Foot
    dm = shot.atmo.get_density_factor_and_mach_for_altitude
    if line is not None:
        # the table samples one straight line: every admissible interpolant is that line, so the reference does not ask the library
        c0, slope, bc = line[0], line[1], spec["bc"]
        tc = type("ExactLine", (), {"drag_by_mach": staticmethod(lambda m: (c0 + slope * m) * 2.08551e-04 / bc)})
    h = 0.05
    prev = None
    with monitors.quiet():
        coarse = refs.solve(spec, xs, dm, tc.drag_by_mach, alt0, h=2 * h)
        while h >= 0.0125 - 1e-12:
            fine = refs.solve(spec, xs, dm, tc.drag_by_mach, alt0, h=h)
            e = {"y": 0.0, "z": 0.0, "v": 0.0, "t": 0.0}
            for x in xs:
                a, b = fine.at.get(x), coarse.at.get(x)
                if a is None or b is None:
                    continue
                e["t"] = max(e["t"], abs(a[0] - b[0]))
                e["y"] = max(e["y"], abs(a[2] - b[2]))
                e["z"] = max(e["z"], abs(a[3] - b[3]))
                e["v"] = max(e["v"], abs(math.sqrt(a[4] ** 2 + a[5] ** 2 + a[6] ** 2) - math.sqrt(b[4] ** 2 + b[5] ** 2 + b[6] ** 2)))
            prev = (fine, e, h)
            if max(e["y"], e["z"]) <= 5e-4:
                return fine, e, h
            coarse = fine
            h /= 2
    del prev
    return None


def check_case(ctx, case):
    monitors.reset_all()
    spec, r_ft, n_rows, h0 = case["shot"], case["range_ft"], case["rows"], case["h0"]
    step_ft = r_ft / n_rows
    vac = spec["atmo"]["kind"] == "vacuum"
    halvings = case["halvings"]
    hs = [h0 / 2 ** k for k in range(halvings + 1)]
    trace = monitors.StepTrace()
    runs = []
    try:
        for k, h in enumerate(hs):
            rows, raw = solver_rows(spec, h, r_ft, step_ft, trace if k == 0 else None, debug=bool(case.get("debug")))
            runs.append(rows)
    except pb.RangeError:
        ctx.count("shots_not_reaching_range")
        ctx.case(case, nontrivial=False, sample=False)
        return
    pts = trace.points
    dt_max = max((b[0] - a[0] for a, b in zip(pts, pts[1:])), default=0.0)
    ctx.count("shots")
    if case.get("debug"):
        ctx.count("shots_with_debug_logging_on")
    # ---- muzzle row = stated initial state
    (p0, v0) = refs.initial_state(spec)
    m = runs[0].get(0)
    ctx.count("muzzle_rows_checked")
    if m is None or abs(m["y"] - p0[1]) > 1e-9 or abs(m["z"] - p0[2]) > 1e-9 or abs(m["v"] - spec["mv_fps"]) > 1e-9 * spec["mv_fps"] \
            or m["t"] != 0 or m["x"] != 0:
        ctx.violation("muzzle-state", f"first row {m} is not the muzzle state implied by the inputs: position (0, {p0[1]!r}, {p0[2]!r}) ft, "
                                      f"speed {spec['mv_fps']} ft/s, t = 0", case)
    ks = [k for k in range(1, n_rows + 1) if all(k in r for r in runs)]
    xs = [runs[0][k]["x"] for k in ks]
    shot = build.shot(spec)
    calc = build.calculator()
    tc = calc._calc  # pylint: disable=protected-access
    tc._init_trajectory(shot)  # pylint: disable=protected-access
    nontrivial = bool(spec.get("winds")) or bool(spec.get("look_deg")) or bool(spec.get("cant_deg")) or vac
    if spec.get("cant_deg"):
        ctx.count("shots_canted")
    if spec.get("look_deg"):
        ctx.count("shots_inclined")

    def bad(key, what, **kw):
        ctx.violation(key, what, case, **kw)

    if vac:
        ctx.count("vacuum_shots")
        ref_at = {}
        for x in xs:
            t, y, z, vx, vy, vz = refs.parabola(spec, x)
            ref_at[x] = {"t": t, "y": y, "z": z, "v": math.sqrt(vx * vx + vy * vy + vz * vz), "vx": vx}
        e_ref = {q: 0.0 for q in COMPONENTS}
        k_max, switches, v_min = 0.0, [], spec["mv_fps"]
    else:
        ref = reference(spec, xs, shot, tc, case.get("line"))
        if case.get("line"):
            ctx.count("shots_exact_line_table")
            nontrivial = True
        ctx.count("reference_runs")
        if ref is None:
            ctx.skip("reference could not certify its own accuracy (e_ref > 5e-4 ft at h_ref = 0.0125 ft)")
            return
        fine, e_ref, h_ref = ref
        ctx.max("e_ref_ft", max(e_ref["y"], e_ref["z"]))
        ref_at = {}
        for x in xs:
            st = fine.at.get(x)
            if st is None:
                continue
            sp = math.sqrt(st[4] ** 2 + st[5] ** 2 + st[6] ** 2)
            ref_at[x] = {"t": st[0], "y": st[2], "z": st[3], "v": sp, "vx": st[4]}
        k_max, switches, v_min = fine.k_max, fine.switches, max(1.0, fine.v_min)
        if any(0 < u < r_ft and s > 0 for s, _, u in [(w[0], w[1], 1e9 if w[2] is None else w[2]) for w in spec.get("winds") or []]) and switches:
            ctx.count("shots_with_wind_switch_inside_range")
            nontrivial = True
        ys = [st["y"] for st in ref_at.values()]
        if ys and (max(ys) > 30 or min(ys) < -30):
            ctx.count("shots_altitude_change_over_30ft")
            nontrivial = True
    ctx.case(case, nontrivial=nontrivial)
    g = 32.17405
    for k, x in zip(ks, xs):
        r = ref_at.get(x)
        if r is None or r["vx"] < 0.1 * r["v"]:
            continue                       # not (any more) moving down-range: outside the statement
        ctx.count("rows_compared")
        big_t = r["t"]
        # wind-switch allowance (a switch takes effect up to one step late; first order in h but not monotone)
        w_v = 2 * sum(max(k_max * dw, da) * dt_max for ts, dw, da in switches if ts <= big_t)
        w_y = 2 * sum(max(k_max * dw, da) * dt_max * (big_t - ts) for ts, dw, da in switches if ts <= big_t)
        floor = {"v": 10 * e_ref["v"] + ROUND["v"] + w_v, "y": 10 * e_ref["y"] + ROUND["y"] + w_y,
                 "z": 10 * e_ref["z"] + ROUND["z"] + w_y, "t": 10 * e_ref["t"] + ROUND["t"] + w_y / v_min}
        errs = [{q: abs(run[k][q] - r[q]) for q in COMPONENTS} for run in runs]
        d = {q: abs(runs[0][k][q] - runs[1][k][q]) for q in COMPONENTS}
        for q in COMPONENTS:
            ctx.max(f"e_h0_over_3d_plus_floor_{q}", errs[0][q] / (3 * d[q] + floor[q]))
            if errs[0][q] > 3 * d[q] + floor[q]:
                bad(f"accuracy.{q}", f"at {x:.1f} ft {q} = {runs[0][k][q]!r} at step {h0} ft, point-mass reference {r[q]!r}: error {errs[0][q]:.3e} "
                                     f"exceeds 3 x (change on halving the step {d[q]:.3e}) + floor {floor[q]:.2e}", distance_ft=x, component=q)
                return
            for j in range(halvings):
                ctx.count("halvings_checked")
                ctx.max(f"halving_ratio_{q}", (errs[j + 1][q] - floor[q]) / errs[j][q] if errs[j][q] > 10 * floor[q] else 0.0)
                if errs[j + 1][q] > 0.75 * errs[j][q] + floor[q]:
                    bad(f"convergence.{q}", f"at {x:.1f} ft the error of {q} toward the reference is {errs[j][q]:.3e} at step {hs[j]} ft and "
                                            f"{errs[j + 1][q]:.3e} at step {hs[j + 1]} ft: it does not shrink (floor {floor[q]:.2e})",
                        distance_ft=x, component=q)
                    return
        if vac:
            # exact first-order error of the semi-implicit Euler step in vacuum is g t dt / 2
            for j, run in enumerate(runs):
                dtj = dt_max / 2 ** j
                if abs(run[k]["y"] - r["y"]) > 1.5 * g * big_t * dtj / 2 + 1e-6:
                    bad("vacuum.parabola", f"vacuum: height {run[k]['y']!r} ft at {x:.1f} ft (step {hs[j]} ft), closed-form parabola {r['y']!r} ft; "
                                           f"allowed first-order error {1.5 * g * big_t * dtj / 2:.3e} ft", distance_ft=x)
                    return
                if abs(run[k]["z"] - r["z"]) > 1e-6 + 1e-9 * abs(r["z"]) or abs(run[k]["t"] - r["t"]) > 1e-6 + dtj:
                    bad("vacuum.lateral-or-time", f"vacuum: z {run[k]['z']!r} vs {r['z']!r} ft, t {run[k]['t']!r} vs {r['t']!r} s at {x:.1f} ft", distance_ft=x)
                    return
    monitors.reset_all()


def gen_case(rng, thorough=False):
    s = gen.shot(rng, twist=False, custom=0.15, vacuum_ok=True, wind_max=60.0)
    k = rng.random()
    if k < 0.2:
        s["look_deg"] = round(rng.choice([-1, 1]) * rng.uniform(20, 45), 2)     # strong altitude change
        s["rel_deg"] = rng.choice([0.0, round(rng.uniform(0, 5), 2)])
    r_ft = rng.choice([300.0, 900.0, 1500.0, 3000.0] if not thorough else [300.0, 900.0, 1500.0, 3000.0, 4500.0])
    if s["mv_fps"] < 1000:
        r_ft = min(r_ft, 1500.0)
    if s["rel_deg"] + s["zero_deg"] > 25:
        r_ft = min(r_ft, 1500.0)
    # wind boundaries: inside, exactly on a recorded distance, beyond the range, opposing
    n_rows = rng.choice([6, 10, 12])
    if s["winds"] and rng.random() < 0.5:
        s["winds"][0][2] = r_ft / n_rows * rng.randint(1, n_rows - 1)       # exactly on a recorded distance
    if len(s["winds"]) >= 2 and rng.random() < 0.5:
        s["winds"][1][1] = (s["winds"][0][1] + 180.0) % 360.0               # opposing
        s["winds"][1][0] = max(s["winds"][1][0], 30.0)
    if len(s["winds"]) >= 2 and rng.random() < 0.25:
        s["relabel_seed"] = rng.getrandbits(30)        # the winds' quantities displayed in other units (in place, magnitudes untouched)
    # base steps at or below the default only: above it the error is not yet in its asymptotic (first-order) regime -
    # the h and h^2 terms have opposite signs for speed and the error toward the reference is not monotone in h
    # (measured: 1.6e-2, 3.8e-2 ft/s at 2 ft, 1 ft) - and the statement speaks of refining the step
    h0 = 0.5 if not thorough else rng.choice([0.5, 0.5, 0.25, 0.125])
    case = {"shot": s, "range_ft": r_ft, "rows": n_rows, "h0": h0, "halvings": 2 if not thorough else 3}
    if rng.random() < 0.08:
        case["debug"] = True
    if rng.random() < 0.1 and s["atmo"]["kind"] != "vacuum":
        # a custom table sampled from one straight line Cd = c0 + slope M, ending just above the launch Mach number (as tables
        # derived from radar tracks do): the flight starts in the upper half of the last interval and the drag function of the
        # model is known exactly without asking the library
        s["mv_fps"] = min(3000.0, max(1300.0, s["mv_fps"]))
        top = round((s["mv_fps"] + 70.0) / 1000.0, 3)           # speed of sound >= 1000 ft/s in every generated atmosphere
        last_gap = rng.uniform(1.1, 1.3)
        c0 = rng.uniform(0.35, 0.6)
        slope = (rng.uniform(0.15, 0.3) - c0) / top
        nodes, m = [0.0], 0.0
        while True:
            m += rng.uniform(0.15, 0.5)
            if m >= top - last_gap - 0.1:
                break
            nodes.append(round(m, 4))
        nodes += [round(top - last_gap, 4), top]
        s["table"] = [[x, c0 + slope * x] for x in nodes]
        s.pop("_restate", None)
        case["line"] = [c0, slope]
    return case


def run(ctx):
    total = 280 if ctx.tier == "quick" else 6000
    for _ in range(ctx.share(total)):
        if not ctx.time_left():
            break
        check_case(ctx, gen_case(ctx.rng, ctx.tier != "quick"))


def replay(ctx, case):
    check_case(ctx, {k: case[k] for k in ("shot", "range_ft", "rows", "h0", "halvings")})
