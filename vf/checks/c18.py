"""C18 - configuration is honoured, local to its calculator, and parsed faithfully.

Monitor shape: (config) differential between calculators built with / without overrides inside random histories of
global-step set/reset, observed through the M-STEP trace (advance per step), limits, gravity in vacuum and the zero
finder; (parsing) exhaustive sweep of unit names and documented aliases x letter case x blanks x numeric prefixes through
every parsing channel, expectation from a name -> unit table."""
import json
import math
import os
import random
import subprocess
import sys
import tempfile

import py_ballisticcalc as pb
from py_ballisticcalc import (Angular, Calculator, Distance, PreferredUnits, Unit, Velocity, basicConfig,
                              get_global_max_calc_step_size, reset_globals, set_global_max_calc_step_size)
from py_ballisticcalc.unit import _parse_unit, _parse_value

from vf import build, gen, monitors
from vf import refs_si as si

ID = "C18"
RULE = ("config: random histories (set / reset of the global step interleaved with creating calculators with random subsets "
        "of the 8 settings) - every calculator's step is observed through the per-step advance of a traced fire; limits, "
        "gravity (vacuum), zero accuracy and iteration cap compared between an overriding and a default calculator on the "
        "same shot; slow and vertical launches for the per-step advance bound; parsing: all 41 enumeration names and all "
        "documented aliases x {as is, lower, UPPER, Title, random case} x {'', ' x ', tab} x channels {_parse_unit, "
        "PreferredUnits.set, basicConfig(preferred_units), TOML file, TOML calculator step units, _parse_value with numeric "
        "prefixes} (exhaustive), plus unknown names; non-trivial: every history with >= 1 override and every name variant "
        "that is not the canonical spelling")
MUST_OBSERVE = ["calculators_from_one_shared_settings_dict", "histories", "calculators_observed", "steps_traced", "override_step_seen", "global_step_seen",
                "limits_compared", "limits_compared_on_inclined_sight_line", "gravity_checked", "accuracy_checked", "iteration_cap_checked", "defaults_fresh_interpreter",
                "nonpositive_rejected", "dict_mutation_checked", "names_parsed", "aliases_parsed", "channel__parse_unit",
                "channel_set", "channel_basicConfig", "channel_toml_units", "channel_toml_step", "channel__parse_value",
                "unknown_names_checked", "slow_steps_traced", "radian_variants", "slot_names_resolved"]
ASSUMPTIONS = ["alias expectations from vf/golden/unit_aliases.json (the documented alias table; the entry written as one string "
               "'in/100yard, inper100yd' is listed as the two aliases it documents)",
               "per-step advance is measured relative to the air (ground displacement minus wind x dt) between successive points "
               "shown to the recorder",
               "known finding C18.slow-air-speed-step is classified by the start-of-step air speed (v^2 < 1.1 g x calc step: "
               "gravity alone more than doubles the speed within the time step)"]
SLOT_DIM = {"angular": "Angular", "distance": "Distance", "velocity": "Velocity", "pressure": "Pressure",
            "temperature": "Temperature", "diameter": "Distance", "length": "Distance", "weight": "Weight",
            "adjustment": "Angular", "drop": "Distance", "energy": "Energy", "ogw": "Weight", "sight_height": "Distance",
            "target_height": "Distance", "twist": "Distance"}
DEFAULT_CFG = {"max_calc_step_size_feet": 0.5, "cZeroFindingAccuracy": 0.000005, "cMinimumVelocity": 50.0,
               "cMaximumDrop": -15000.0, "cMaxIterations": 20, "cGravityConstant": -32.17405, "cMinimumAltitude": -1410.748}


KNOWN = set()


def budget(tier):
    return {"shards": 14, "deadline_s": 75 if tier == "quick" else 1200}


# =============================================================================== configuration
def traced_fire(calc, spec, range_ft, wind=None):
    shot = build.shot(spec)
    tr = monitors.StepTrace()
    with monitors.quiet(), tr:
        try:
            calc.fire(shot, Distance.Foot(range_ft), Distance.Foot(range_ft), time_step=0.0)
        except pb.RangeError:
            pass
    return tr.points


def advances(points, wind=(0.0, 0.0, 0.0)):
    """[(air-relative advance, air speed at the start of the step)] between successive recorder points."""
    out = []
    for a, b in zip(points, points[1:]):
        dt = b[0] - a[0]
        dx, dy, dz = b[1] - a[1] - wind[0] * dt, b[2] - a[2], b[3] - a[3] - wind[2] * dt
        v0 = math.sqrt((a[4] - wind[0]) ** 2 + a[5] ** 2 + (a[6] - wind[2]) ** 2)
        out.append((math.sqrt(dx * dx + dy * dy + dz * dz), v0))
    return out


def check_step(ctx, calc, expect_step, case, spec=None, range_ft=40.0, gravity=32.17405):
    """The calculator's effective maximum step, observed: no advance above it, median advance = half of it."""
    spec = spec or {"table": "G7", "bc": 0.3, "mv_fps": 2500.0, "sight_height_in": 2.0}
    wind = (0.0, 0.0, 0.0)
    if spec.get("winds"):
        w = spec["winds"][0]
        wind = (w[0] * math.cos(math.radians(w[1])), 0.0, w[0] * math.sin(math.radians(w[1])))
    adv = advances(traced_fire(calc, spec, range_ft), wind)
    if not adv:
        ctx.skip("no steps traced")
        return
    ctx.count("calculators_observed")
    ctx.count("steps_traced", len(adv))
    calc_step = expect_step / 2.0
    for a, v0 in adv:
        if v0 < 10:
            ctx.count("slow_steps_traced")
        if a > expect_step * (1 + 1e-9):
            if v0 * v0 < 1.1 * gravity * calc_step:
                ctx.violation("C18.slow-air-speed-step", f"advance {a:.4f} ft > max step {expect_step} ft in a step starting at air speed {v0:.3f} ft/s",
                              case, advance=a, v_air=v0)
            else:
                ctx.violation("step-exceeds-max", f"one integration step advanced the projectile {a!r} ft through the air, configured maximum "
                                                  f"step {expect_step} ft (air speed at the start of the step {v0:.2f} ft/s)", case, advance=a, v_air=v0)
                return
    fast = sorted(a for a, v0 in adv if v0 > 50)
    if fast:
        med = fast[len(fast) // 2]
        ctx.max("median_advance_over_half_step", med / calc_step)
        if not abs(med / calc_step - 1) <= 0.02:
            ctx.violation("step-not-honoured", f"median advance per step is {med:.5f} ft: the calculator integrates with a maximum step of about "
                                               f"{2 * med:.4f} ft, not the {expect_step} ft that applies to it", case, median=med)


def check_history(ctx, case):
    """Global-step set/reset interleaved with calculator creation: step = override, else the global at creation."""
    monitors.reset_all()
    ctx.count("histories")
    model_global = 0.5
    live = []          # (calculator, expected step, description)
    overrides = 0
    shared = {}
    for op in case["ops"]:
        kind = op[0]
        if kind == "set":
            val = op[1]
            arg = Unit[op[2]](si.from_base("Distance", op[2], val * 0.3048)) if op[2] else val
            if op[2] is None:
                PreferredUnits.distance = Unit.Foot
            try:
                set_global_max_calc_step_size(arg)
                if val <= 0:
                    ctx.violation("global-setter.accepted-nonpositive", f"set_global_max_calc_step_size({val}) accepted", case)
                model_global = val
            except ValueError:
                if val > 0:
                    ctx.violation("global-setter.rejected-positive", f"set_global_max_calc_step_size({val}) raised ValueError", case)
                else:
                    ctx.count("nonpositive_rejected")
            PreferredUnits.distance = Unit.Yard
            got = get_global_max_calc_step_size() >> Distance.Foot
            if not abs(got - model_global) <= 1e-9 * model_global:
                ctx.violation("global-setter.value", f"global maximum step is {got!r} ft, expected {model_global!r} ft after {op}", case)
        elif kind == "reset":
            reset_globals()
            model_global = 0.5
        elif kind == "basicConfig":
            val = op[1]
            try:
                basicConfig(max_calc_step_size=Distance.Foot(val))
                if val <= 0:
                    ctx.violation("global-setter.accepted-nonpositive", f"basicConfig(max_calc_step_size={val} ft) accepted", case)
                model_global = val
            except ValueError:
                if val > 0:
                    ctx.violation("global-setter.rejected-positive", f"basicConfig(max_calc_step_size={val} ft) raised ValueError", case)
                else:
                    ctx.count("nonpositive_rejected")
            got = get_global_max_calc_step_size() >> Distance.Foot
            if not abs(got - model_global) <= 1e-9 * model_global:
                ctx.violation("global-setter.value", f"global maximum step is {got!r} ft, expected {model_global!r} ft after {op}", case)
        elif kind == "new":
            cfg = op[1]
            if cfg is not None and len(op) > 2 and op[2] is not None:
                # the application keeps one settings dict and hands the very same object to every calculator it creates
                handed = shared.setdefault(op[2], dict(cfg))
                ctx.count("calculators_from_one_shared_settings_dict")
            else:
                handed = dict(cfg) if cfg is not None else None
            c = Calculator(_config=handed) if cfg is not None else Calculator()
            if cfg is not None and handed != cfg:
                # not judged by itself (the statement does not speak about the dict): what counts is that the next calculator made
                # from this object still follows the settings its owner wrote into it and nothing else - the step oracle decides
                ctx.count("settings_dict_changed_by_the_library")
            exp = cfg["max_calc_step_size_feet"] if cfg and "max_calc_step_size_feet" in cfg else model_global
            if cfg and "max_calc_step_size_feet" in cfg:
                overrides += 1
                ctx.count("override_step_seen")
            elif model_global != 0.5:
                ctx.count("global_step_seen")
            live.append((c, exp, cfg))
        elif kind == "observe" and live:
            c, exp, cfg = live[op[1] % len(live)]
            check_step(ctx, c, exp, dict(case, observed=op[1] % len(live)))
    for i, (c, exp, cfg) in enumerate(live):
        check_step(ctx, c, exp, dict(case, observed=i))
    ctx.case(case, nontrivial=overrides > 0 or any(o[0] == "set" for o in case["ops"]))
    monitors.reset_all()


def check_settings(ctx, case):
    """Limits / gravity / accuracy / cap: A (override) vs B (default) on the same shot; neither affects the other."""
    monitors.reset_all()
    cfg = case["config"]
    order = case["order"]
    made = {}
    for who in order:
        made[who] = Calculator(_config=dict(cfg)) if who == "A" else Calculator()
    a, b = made["A"], made["B"]
    given = dict(cfg)
    # (7) mutating the dict handed in afterwards has no effect
    passed = dict(cfg)
    a2 = Calculator(_config=passed)
    passed["cMinimumVelocity"] = 2900.0
    passed["max_calc_step_size_feet"] = 3.0
    passed["cGravityConstant"] = -1.0
    ctx.count("dict_mutation_checked")
    eff = dict(DEFAULT_CFG, **given)
    spec = case["shot"]
    lims = lambda c: (c["cMinimumVelocity"], c["cMaximumDrop"], c["cMinimumAltitude"])  # noqa: E731

    def outcome(calc):
        with monitors.quiet():
            try:
                rows = list(calc.fire(build.shot(spec), Distance.Foot(case["range_ft"]), Distance.Foot(case["range_ft"] / 10)))
                return "return", rows
            except pb.RangeError as e:
                return e.reason, list(e.incomplete_trajectory)

    from vf.checks.c04 import REASONS, violated   # same oracle as C04, with the limits of *this* calculator
    alt0 = build.shot(spec).atmo.altitude >> Distance.Foot
    if spec.get("look_deg"):
        ctx.count("limits_compared_on_inclined_sight_line")
    for name, calc, c in (("A", a, eff), ("A-after-dict-mutation", a2, eff), ("B", b, DEFAULT_CFG)):
        reason, rows = outcome(calc)
        ctx.count("limits_compared")
        if reason != "return":
            defin, poss = violated(rows[-1], alt0, lims(c))
            rn = next(k for k, v in REASONS.items() if v == reason)
            if rn not in poss:
                ctx.violation("limit-not-own", f"calculator {name} stopped for '{reason}' but its own limits {lims(c)} are not violated by the last row "
                                               f"(v={rows[-1].velocity >> Velocity.FPS:.2f} fps, y={rows[-1].height >> Distance.Foot:.2f} ft)", case, who=name)
        for r in rows[1:(-1 if reason != "return" else None)]:
            defin, _ = violated(r, alt0, lims(c))
            if defin:
                ctx.violation("limit-ignored", f"calculator {name}: a row before the end violates its '{defin[0]}' limit {lims(c)}", case, who=name)
                break
    # (3) gravity in vacuum
    g = eff["cGravityConstant"]
    vspec = dict(spec, atmo={"kind": "vacuum", "alt_ft": 0.0, "t_c": 15.0}, winds=[], rel_deg=2.0, look_deg=0.0, zero_deg=0.0,
                 cant_deg=0.0, twist_in=0.0, mv_fps=max(800.0, spec["mv_fps"]))
    for name, calc, gg, stp in (("A", a, g, eff["max_calc_step_size_feet"]), ("B", b, -32.17405, 0.5)):
        relaxed_ok = True
        with monitors.quiet():
            try:
                rows = list(calc.fire(build.shot(vspec), Distance.Foot(600.0), Distance.Foot(200.0)))
            except pb.RangeError:
                relaxed_ok = False
        if not relaxed_ok:
            continue
        ctx.count("gravity_checked")
        vy0 = vspec["mv_fps"] * math.sin(math.radians(2.0))
        y0 = -vspec.get("sight_height_in", 0.0) / 12.0
        for r in rows[1:]:
            t = r.time
            want = y0 + vy0 * t + 0.5 * gg * t * t
            dt = stp / 2.0 / vspec["mv_fps"]
            tol = 1.5 * abs(gg) * t * dt / 2 * 1.2 + 1e-6
            got = r.height >> Distance.Foot
            if not abs(got - want) <= tol:
                ctx.violation("gravity-not-honoured", f"calculator {name} (gravity {gg}): vacuum height at t={t:.4f}s is {got!r} ft, "
                                                      f"y0 + vy t + g t^2/2 = {want!r} ft", case, who=name)
                break
    # (4) zero accuracy and iteration cap
    zspec = dict(spec, look_deg=0.0, rel_deg=0.0, zero_deg=0.0, cant_deg=0.0, winds=[], mv_fps=max(1500.0, spec["mv_fps"]),
                 sight_height_in=2.0, atmo={"kind": "icao", "alt_ft": 0.0})
    if "cZeroFindingAccuracy" in given and given["cZeroFindingAccuracy"] >= 0.5:
        # a half-foot tolerance accepts the starting elevation of this shot (error ~ inches): A returns the start, B a real zero
        with monitors.quiet():
            # at 100 ft and >= 1500 ft/s the un-zeroed miss is sight height + drop < 0.25 ft
            try:
                za = a.barrel_elevation_for_target(build.shot(zspec), Distance.Foot(100.0)) >> Angular.Radian
            except pb.RangeError:
                za = None        # A's own limits (minimum velocity / drop / altitude) end the flight before 100 ft: nothing to compare
                ctx.count("accuracy_out_of_reach_under_own_limits")
            zb = b.barrel_elevation_for_target(build.shot(zspec), Distance.Foot(100.0)) >> Angular.Radian
        if za is not None:
            ctx.count("accuracy_checked")
        if za is not None and za != 0.0:
            ctx.violation("accuracy-not-honoured", f"calculator A has zero accuracy {given['cZeroFindingAccuracy']} ft but still refined the elevation ({za!r} rad)", case)
        if not zb > 1e-4:
            ctx.violation("accuracy-leaked", f"default calculator B returned elevation {zb!r} rad: it was affected by A's accuracy", case)
    if "cMaxIterations" in given and given["cMaxIterations"] <= 2:
        ctx.count("iteration_cap_checked")
        tight = Calculator(_config=dict(given, cZeroFindingAccuracy=1e-9))
        with monitors.quiet():
            try:
                tight.barrel_elevation_for_target(build.shot(zspec), Distance.Foot(900.0))
                ctx.violation("iteration-cap-ignored", f"zeroing to 1e-9 ft succeeded although cMaxIterations = {given['cMaxIterations']}", case)
            except pb.ZeroFindingError as e:
                if e.iterations_count > given["cMaxIterations"]:
                    ctx.violation("iteration-cap-exceeded", f"{e.iterations_count} iterations with cMaxIterations = {given['cMaxIterations']}", case)
            except pb.RangeError:
                ctx.count("iteration_cap_out_of_reach_under_own_limits")
            try:
                b.barrel_elevation_for_target(build.shot(zspec), Distance.Foot(900.0))
            except pb.ZeroFindingError:
                ctx.violation("iteration-cap-leaked", "default calculator B failed to zero: it was affected by A's iteration cap", case)
    # step of both, observed
    check_step(ctx, a, eff["max_calc_step_size_feet"], case)
    check_step(ctx, a2, eff["max_calc_step_size_feet"], dict(case, who="A-after-dict-mutation"))
    check_step(ctx, b, 0.5, dict(case, who="B"))
    if "max_calc_step_size_feet" in given:
        ctx.count("override_step_seen")
    ctx.case(case, nontrivial=bool(given))
    monitors.reset_all()


def check_slow(ctx, case):
    """Per-step advance bound on launches that pass through very low air speeds."""
    monitors.reset_all()
    cfg = case.get("config") or {}
    calc = Calculator(_config=dict(cfg)) if cfg else Calculator()
    # the limits in force must be this calculator's own (here: no minimum velocity)
    from vf.checks.c04 import REASONS, violated
    eff = dict(DEFAULT_CFG, **cfg)
    with monitors.quiet():
        try:
            calc.fire(build.shot(case["shot"]), Distance.Foot(case["range_ft"]), Distance.Foot(case["range_ft"]))
        except pb.RangeError as e:
            ctx.count("limits_compared")
            last = e.incomplete_trajectory[-1]
            _, poss = violated(last, 0.0, (eff["cMinimumVelocity"], eff["cMaximumDrop"], eff["cMinimumAltitude"]))
            rn = next(k for k, v in REASONS.items() if v == e.reason)
            if rn not in poss:
                ctx.violation("limit-not-own", f"stopped for '{e.reason}' but this calculator's limits (vmin {eff['cMinimumVelocity']}, drop "
                                               f"{eff['cMaximumDrop']}, altitude {eff['cMinimumAltitude']}) are not violated by the last row "
                                               f"(v={last.velocity >> Velocity.FPS:.2f} fps, y={last.height >> Distance.Foot:.2f} ft)", case)
    check_step(ctx, calc, cfg.get("max_calc_step_size_feet", 0.5), case, spec=case["shot"], range_ft=case["range_ft"],
               gravity=abs(cfg.get("cGravityConstant", -32.17405)))
    ctx.case(case, nontrivial=True)
    monitors.reset_all()


def check_defaults_fresh(ctx):
    code = ("import warnings; warnings.simplefilter('ignore'); import json, py_ballisticcalc as pb; "
            "from py_ballisticcalc import *; c = Calculator()._calc._config; "
            "print(json.dumps({'global_ft': get_global_max_calc_step_size() >> Distance.Foot, 'cfg': c._asdict(), "
            "'pu': {k: getattr(PreferredUnits, k).name for k in ['distance','velocity','angular']}}))")
    cwd = tempfile.mkdtemp(prefix="vf_c18_")
    try:
        r = subprocess.run([sys.executable, "-B", "-c", code], cwd=cwd, capture_output=True, text=True, timeout=120,
                           env={**os.environ})
    finally:
        os.rmdir(cwd)
    case = {"kind": "defaults-fresh-interpreter"}
    ctx.case(case, nontrivial=True)
    if r.returncode != 0:
        ctx.violation("defaults.fresh-interpreter-failed", r.stderr[-300:], case)
        return
    ctx.count("defaults_fresh_interpreter")
    d = json.loads(r.stdout.strip().splitlines()[-1])
    if d["global_ft"] != 0.5:
        ctx.violation("defaults.global-step", f"fresh interpreter: global maximum step {d['global_ft']!r} ft, documented default 0.5 ft", case)
    for k, v in DEFAULT_CFG.items():
        if d["cfg"][k] != v:
            ctx.violation("defaults." + k, f"fresh interpreter: default {k} = {d['cfg'][k]!r}, documented {v!r}", case)


# =============================================================================== parsing
def alias_table():
    path = os.path.join(os.path.dirname(os.path.dirname(os.path.abspath(__file__))), "golden", "unit_aliases.json")
    with open(path, encoding="utf-8") as fp:
        return json.load(fp)["aliases"]


def variants(rng, name):
    rnd = "".join(ch.upper() if rng.random() < 0.5 else ch.lower() for ch in name)
    return [("as-is", name), ("lower", name.lower()), ("upper", name.upper()), ("title", name.title()), ("random", rnd)]


def dim_of(unit_name):
    return next(d for d, us in si.DIMENSIONS.items() if unit_name in us)


def slots_for(unit_name):
    return [s for s, d in SLOT_DIM.items() if d == dim_of(unit_name)]


def check_name(ctx, rng, name, unit_name, is_alias, tmpdir):
    want = Unit[unit_name]
    ctx.count("aliases_parsed" if is_alias else "names_parsed")
    for vkind, text in variants(rng, name):
        if text.lower() != name.lower():
            # str.upper()/title() of some non-ASCII aliases is not case-insensitively equal to the alias (no such alias today)
            continue
        for bkind, wrapped in (("plain", text), ("blanks", f" {text} "), ("tab", f"\t{text}")):
            case = {"kind": "parse", "name": name, "unit": unit_name, "variant": vkind, "text": wrapped}
            ctx.case(case, nontrivial=(wrapped != unit_name), sample=(unit_name in ("Radian", "OClock") and vkind == "upper"))
            if unit_name == "Radian":
                ctx.count("radian_variants")

            def bad(channel, got):
                ctx.violation(f"parse.{channel}.{unit_name}", f"{channel}({wrapped!r}) gave {got!r}, expected {want!r} "
                                                              f"({'alias' if is_alias else 'enumeration name'} {name!r}, {vkind} case, {bkind})",
                              dict(case, channel=channel))
            # channel 1: _parse_unit
            ctx.count("channel__parse_unit")
            try:
                got = _parse_unit(wrapped)
            except Exception as exc:  # pylint: disable=broad-except
                got = f"raised {type(exc).__name__}"
            if got is not want:
                bad("_parse_unit", got)
            slot = rng.choice(slots_for(unit_name))
            other = next(u for u in si.DIMENSIONS[dim_of(unit_name)] + ["Inch"] if u != unit_name)
            # channel 2: PreferredUnits.set
            ctx.count("channel_set")
            PreferredUnits.defaults()
            setattr(PreferredUnits, slot, Unit[other])
            try:
                PreferredUnits.set(**{slot: wrapped})
                got = getattr(PreferredUnits, slot)
            except Exception as exc:  # pylint: disable=broad-except
                got = f"raised {type(exc).__name__}"
            if got is not want:
                bad("PreferredUnits.set", got)
            # channel 3: basicConfig(preferred_units=...)
            ctx.count("channel_basicConfig")
            PreferredUnits.defaults()
            setattr(PreferredUnits, slot, Unit[other])
            try:
                basicConfig(preferred_units={slot: wrapped})
                got = getattr(PreferredUnits, slot)
            except Exception as exc:  # pylint: disable=broad-except
                got = f"raised {type(exc).__name__}"
            if got is not want:
                bad("basicConfig(preferred_units)", got)
            # channel 4: TOML file, preferred_units table (+ channel 5: calculator step units for distance units)
            if bkind != "tab" or vkind in ("as-is", "upper"):
                ctx.count("channel_toml_units")
                path = os.path.join(tmpdir, "pybc.toml")
                is_dist = dim_of(unit_name) == "Distance"
                step_val = 0.75
                with open(path, "w", encoding="utf-8") as fp:
                    fp.write(f"[pybc.preferred_units]\n{slot} = {json.dumps(wrapped, ensure_ascii=False)}\n")
                    fp.write("[pybc.calculator]\n")
                    if is_dist:
                        fp.write(f"max_calc_step_size = {{ value = {step_val}, units = {json.dumps(wrapped, ensure_ascii=False)} }}\n")
                PreferredUnits.defaults()
                reset_globals()
                setattr(PreferredUnits, slot, Unit[other])
                try:
                    basicConfig(path, suppress_warnings=True)
                    got = getattr(PreferredUnits, slot)
                except Exception as exc:  # pylint: disable=broad-except
                    got = f"raised {type(exc).__name__}: {exc}"
                if got is not want:
                    bad("basicConfig(file).preferred_units", got)
                if is_dist:
                    ctx.count("channel_toml_step")
                    got_ft = monitors.global_max_step_ft()
                    want_ft = want(step_val) >> Distance.Foot
                    if not abs(got_ft - want_ft) <= 1e-9 * want_ft:
                        bad("basicConfig(file).calculator.max_calc_step_size.units", f"global step {got_ft!r} ft (expected {want_ft!r} ft)")
                reset_globals()
            # channel 6: _parse_value with a numeric prefix
            PreferredUnits.defaults()
            for prefix, num in (("10", 10.0), ("-1.5", -1.5), (".5", 0.5), ("3.", 3.0)):
                ctx.count("channel__parse_value")
                sep = {"plain": "", "blanks": " ", "tab": "\t"}[bkind]
                s = f"{prefix}{sep}{text}"
                try:
                    q = _parse_value(s, Unit.Inch)
                    got = (q.units, q.unit_value) if q is not None else None
                except Exception as exc:  # pylint: disable=broad-except
                    got = f"raised {type(exc).__name__}"
                ok = isinstance(got, tuple) and got[0] is want and abs(got[1] - num) <= 1e-9 * abs(num)
                if not ok:
                    ctx.violation(f"parse._parse_value.{unit_name}", f"_parse_value({s!r}) gave {got!r}, expected {num} {want!r}",
                                  dict(case, channel="_parse_value", value_string=s))
            # value given as a number with the unit name as the 'preferred' string
            try:
                q = _parse_value(2.5, wrapped)
                got = (q.units, q.unit_value)
            except Exception as exc:  # pylint: disable=broad-except
                got = f"raised {type(exc).__name__}"
            if not (isinstance(got, tuple) and got[0] is want and abs(got[1] - 2.5) < 1e-9):
                ctx.violation(f"parse._parse_value-preferred.{unit_name}", f"_parse_value(2.5, {wrapped!r}) gave {got!r}, expected 2.5 {want!r}",
                              dict(case, channel="_parse_value(preferred=str)"))
    PreferredUnits.defaults()


def check_slot_names(ctx, rng):
    """_parse_unit / _parse_value resolve a slot name ('distance', 'drop', ...) to the unit currently preferred for it."""
    for _ in range(3):
        for slot, dim in SLOT_DIM.items():
            u = Unit[rng.choice(si.DIMENSIONS[dim])]
            setattr(PreferredUnits, slot, u)
            case = {"kind": "slot-name", "slot": slot, "unit": u.name}
            ctx.case(case, nontrivial=True, sample=False)
            ctx.count("slot_names_resolved")
            for text in (slot, slot.upper(), f" {slot} "):
                got = _parse_unit(text)
                if got is not u:
                    ctx.violation("parse.slot-name", f"_parse_unit({text!r}) gave {got!r} while PreferredUnits.{slot} is {u!r}", case)
            try:
                q = _parse_value(1.5, slot)
                if q.units is not u:
                    ctx.violation("parse.slot-name", f"_parse_value(1.5, {slot!r}) is in {q.units!r} while PreferredUnits.{slot} is {u!r}", case)
            except Exception as exc:  # pylint: disable=broad-except
                ctx.violation("parse.slot-name", f"_parse_value(1.5, {slot!r}) raised {type(exc).__name__}", case)
    PreferredUnits.defaults()


def check_unknown(ctx, text, tmpdir):
    case = {"kind": "unknown", "text": text}
    ctx.case(case, nontrivial=True, sample=False)
    ctx.count("unknown_names_checked")
    try:
        got = _parse_unit(text)
    except Exception:  # pylint: disable=broad-except
        got = None
    if got is not None:
        ctx.violation("unknown._parse_unit", f"_parse_unit({text!r}) returned {got!r} for a name that is no unit name or documented alias", case)
    for channel in ("set", "basicConfig", "toml"):
        PreferredUnits.defaults()
        before = monitors.globals_snapshot()["preferred"]
        try:
            if channel == "set":
                PreferredUnits.set(distance=text, angular=text)
            elif channel == "basicConfig":
                basicConfig(preferred_units={"distance": text, "weight": text})
            else:
                path = os.path.join(tmpdir, "pybc.toml")
                with open(path, "w", encoding="utf-8") as fp:
                    fp.write(f"[pybc.preferred_units]\ndistance = {json.dumps(text)}\n[pybc.calculator]\n"
                             f"max_calc_step_size = {{ value = 0.9, units = {json.dumps(text)} }}\n")
                basicConfig(path, suppress_warnings=True)
        except RecursionError:
            ctx.violation("unknown.recursion", f"{channel} with {text!r} recursed without bound", case)
        except Exception:  # pylint: disable=broad-except
            pass          # raising is one of the two allowed outcomes
        after = monitors.globals_snapshot()["preferred"]
        for slot, u in after.items():
            if not isinstance(u, Unit):
                ctx.violation("unknown.slot-not-a-unit", f"{channel} with {text!r} left PreferredUnits.{slot} = {u!r} (not a Unit)", case)
            elif u is not before[slot]:
                ctx.violation("unknown.selected-another-unit", f"{channel} with {text!r} changed PreferredUnits.{slot} from {before[slot]!r} to {u!r}", case)
        if abs(monitors.global_max_step_ft() - 0.5) > 1e-12:
            ctx.violation("unknown.step-units", f"{channel} with units {text!r} changed the global step to {monitors.global_max_step_ft()!r} ft", case)
        for q_text in (f"10{text}", f"2.5 {text}"):
            squeezed = text.replace(" ", "")
            if not squeezed or squeezed[0].isdigit() or squeezed[0] == "." or squeezed.lower() in KNOWN:
                continue      # blanks are documented as insignificant in value strings; digits extend the number
            try:
                q = _parse_value(q_text, Unit.Inch)
                if q is not None and text.strip():
                    ctx.violation("unknown._parse_value", f"_parse_value({q_text!r}) returned {q!r}", case)
            except Exception:  # pylint: disable=broad-except
                pass
        reset_globals()
    PreferredUnits.defaults()


# =============================================================================== workload
def gen_history(rng):
    ops = []
    for _ in range(rng.randint(4, 12)):
        k = rng.random()
        if k < 0.3:
            val = rng.choice([0.25, 1.0, 2.0, round(rng.uniform(0.1, 3.0), 3), 0.0, -1.0])
            ops.append(["set", val, rng.choice([None, "Foot", "Inch", "Meter", "Yard", "Centimeter"])])
        elif k < 0.36:
            ops.append(["reset"])
        elif k < 0.42:
            ops.append(["basicConfig", rng.choice([0.3, 1.5, -0.5, 0.75])])
        elif k < 0.85:
            cfg = None
            if rng.random() < 0.6:
                cfg = {}
                if rng.random() < 0.6:
                    cfg["max_calc_step_size_feet"] = rng.choice([0.125, 0.25, 1.0, 1.5, round(rng.uniform(0.1, 2.5), 3)])
                if rng.random() < 0.3:
                    cfg["cMinimumVelocity"] = rng.choice([0.0, 300.0])
                if rng.random() < 0.2:
                    cfg["chart_resolution"] = 0.5
            ops.append(["new", cfg])
        else:
            ops.append(["observe", rng.randint(0, 9)])
    # the same settings (one dict object) serve several calculators created at different moments of the history
    news = [o for o in ops if o[0] == "new" and o[1] is not None]
    if news and rng.random() < 0.6:
        proto = rng.choice(news)[1]
        for o in news:
            if rng.random() < 0.7:
                o[1] = dict(proto)
                o.append("S")
    return {"kind": "history", "ops": ops}


def gen_settings(rng):
    cfg = {}
    pool = {"max_calc_step_size_feet": [0.25, 1.0, 2.0], "cZeroFindingAccuracy": [0.5, 1.0, 1e-4], "cMinimumVelocity": [0.0, 400.0, 1200.0, -100.0],
            "cMaximumDrop": [-5.0, -200.0, -30000.0, 0.0, 0], "cMaxIterations": [1, 2, 60], "cGravityConstant": [-9.0, -32.17405, -50.0, -16.0],
            "cMinimumAltitude": [-100.0, -10.0, -3000.0, 0.0, 0, -0.0], "chart_resolution": [0.2, 1.0]}
    for k, vals in pool.items():
        if rng.random() < 0.45:
            cfg[k] = rng.choice(vals)
    s = gen.shot(rng, custom=0.0, cant=False, look=False, wind_n=0, twist=False)
    s["rel_deg"] = rng.choice([0.0, 5.0, 30.0, 85.0])
    if s["rel_deg"] <= 5.0 and rng.random() < 0.4:
        s["look_deg"] = rng.choice([-20.0, -10.0, 10.0, 25.0])      # inclined sight line: the limits are about the rows' own height
    if s["rel_deg"] > 80:
        s["mv_fps"] = min(s["mv_fps"], 900.0)     # a lob that slows below the default minimum velocity near its apex
        if "cMaximumDrop" in cfg:
            cfg["cMaximumDrop"] = -200.0
    return {"kind": "settings", "config": cfg, "order": rng.choice([["A", "B"], ["B", "A"]]), "shot": s,
            "range_ft": rng.choice([3000.0, 30000.0])}


def gen_slow(rng):
    s = {"table": rng.choice(["G1", "G7"]), "bc": round(rng.uniform(0.1, 0.6), 3), "mv_fps": rng.choice([0.0, 1.0, 2.5, 5.0, 30.0, 200.0]),
         "sight_height_in": 2.0, "rel_deg": rng.choice([90.0, 89.9, 60.0, 0.0, -90.0]), "winds": []}
    if rng.random() < 0.3:
        s["winds"] = [[round(rng.uniform(5, 30), 1), rng.choice([0.0, 180.0, 90.0]), None]]
    cfg = {"cMinimumVelocity": 0.0, "cMaximumDrop": rng.choice([-50.0, -300.0])}
    if rng.random() < 0.4:
        cfg["max_calc_step_size_feet"] = rng.choice([0.25, 1.0, 2.0])
    if s["rel_deg"] >= 60 and s["mv_fps"] >= 30:
        s["mv_fps"] = rng.choice([30.0, 60.0, 150.0])
    return {"kind": "slow", "shot": s, "config": cfg, "range_ft": 200.0}


def run(ctx):
    rng = ctx.rng
    tmpdir = tempfile.mkdtemp(prefix="vf_c18_toml_")
    try:
        if ctx.shard == 0:
            check_defaults_fresh(ctx)
        # ---- parsing: exhaustive over names and aliases, partitioned over shards
        names = [(u, u, False) for us in si.DIMENSIONS.values() for u in us]
        names += [(a, u, True) for a, u in alias_table().items()]
        for name, unit_name, is_alias in ctx.my(names):
            check_name(ctx, rng, name, unit_name, is_alias, tmpdir)
        check_slot_names(ctx, rng)
        unknown = ["meters", "yards", "feets", "inches", "radians", "degrees", "kilo", "set", "defaults", "__doc__", "__class__",
                   "__dict__", "__module__", "", "   ", "xyz", "o'clock", "in/100", "Unit.Meter", "10", "mete", "eter", "nauticalmiles",
                   "in/100yard, inper100yd", "f p s", "°", "none", "null"]
        unknown += ["".join(rng.choice("abcdefghijklmnopqrstuvwxyz/_") for _ in range(rng.randint(1, 9))) for _ in range(6)]
        known = {n.lower() for n, _, _ in names} | set(SLOT_DIM)
        KNOWN.update(known)
        for text in ctx.my(unknown):
            if text.strip().lower() in known:
                continue
            check_unknown(ctx, text, tmpdir)
        # ---- configuration
        n_hist, n_set, n_slow = (140, 140, 140) if ctx.tier == "quick" else (6000, 6000, 6000)
        for _ in range(ctx.share(n_hist)):
            if not ctx.time_left():
                break
            check_history(ctx, gen_history(rng))
        for _ in range(ctx.share(n_set)):
            if not ctx.time_left():
                break
            check_settings(ctx, gen_settings(rng))
        for _ in range(ctx.share(n_slow)):
            if not ctx.time_left():
                break
            check_slow(ctx, gen_slow(rng))
    finally:
        for f in os.listdir(tmpdir):
            os.unlink(os.path.join(tmpdir, f))
        os.rmdir(tmpdir)
        monitors.reset_all()


def replay(ctx, case):
    tmpdir = tempfile.mkdtemp(prefix="vf_c18_toml_")
    try:
        k = case.get("kind")
        if k == "history":
            check_history(ctx, {"kind": "history", "ops": case["ops"]})
        elif k == "settings":
            check_settings(ctx, {kk: v for kk, v in case.items() if kk != "who"})
        elif k == "slow":
            check_slow(ctx, case)
        elif k == "parse":
            check_name(ctx, random.Random(0), case["name"], case["unit"], case["name"] != case["unit"], tmpdir)
        elif k == "unknown":
            check_unknown(ctx, case["text"], tmpdir)
        else:
            check_defaults_fresh(ctx)
    finally:
        for f in os.listdir(tmpdir):
            os.unlink(os.path.join(tmpdir, f))
        os.rmdir(tmpdir)
