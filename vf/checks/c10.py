"""C10 - results depend only on the arguments: deterministic, isolated, non-mutating.

Monitor shape: history + executable model.  Random operation histories run on pools of shots (sharing weapons, ammo,
atmospheres, tables on purpose) and long-lived calculators; for every operation the model result is computed on a deep
copy of the arguments with a brand-new calculator, and the observed result inside the history must be bit-identical;
deep snapshots of every pooled object, the module tables and the process globals surround every operation.  A thread
phase runs calculators owned by distinct threads under a lowered switch interval and sys.monitoring yield injection."""
import copy
import os
import sys
import threading

import py_ballisticcalc as pb
from py_ballisticcalc import (BCPoint, Calculator, Distance, DragModel, DragModelMultiBC, Unit)

from vf import build, gen, monitors
from vf.build import TABLE_NAMES
from vf import refs_si as si
from vf.snapshot import diff, snap, unhex

ID = "C10"
RULE = ("random histories (20-120 operations: fire plain / extra / time-step, set_weapon_zero, barrel_elevation_for_target, "
        "danger_space, model construction from pooled tables, operations that raise RangeError / ZeroFindingError / "
        "ArithmeticError / UnitConversionError) over pools of 8-12 shots that share weapons, ammunition, atmospheres and "
        "table objects and 3-4 calculators with different configurations; thread rounds: 8 threads each owning a calculator, "
        "zeroing private copies and firing shared read-only shots, with switch interval 1e-6 and random yields at library "
        "statement starts; a case = one history or one thread round; non-trivial when it contains a zeroing or a raising "
        "operation interleaved with fires (history) / when thread switches inside library code were observed (round); isolation "
        "rounds: two argument sets built separately from one specification (equal Atmo.icao arguments, constructor defaults), "
        "every public edit applied to one, snapshot + results of the other and of a set built afterwards compared")
MUST_OBSERVE = ["histories", "ops", "op_fire", "op_zero", "op_elev", "op_danger", "op_model", "ops_raised", "results_compared",
                "pool_snapshots", "zero_changes_accepted", "thread_rounds", "thread_results_compared", "thread_switch_sites",
                "thread_yields_injected", "shared_objects_in_pool", "warning_emitting_ops", "op_mutate", "op_construct", "isolation_sets",
                "isolation_edits", "isolation_results_compared"]
ASSUMPTIONS = ["the executable model of an operation is the same operation on a deep copy of its arguments (with the weapon's "
               "current stored zero) executed by a brand-new calculator of the same configuration",
               "thread schedules: only calculators owned by distinct threads, as the statement says; shared-calculator use is not explored",
               "distinct thread-switch sites are observed through line events (a switch is seen at the first library line run by another thread)"]


def budget(tier):
    return {"shards": 14, "deadline_s": 80 if tier == "quick" else 1500}


# ----------------------------------------------------------------------------- pools
def make_pool(rng):
    n = rng.randint(8, 12)
    specs = []
    for _ in range(n):
        s = gen.shot(rng, custom=0.1, wind_max=40.0)
        s["rel_deg"] = min(s["rel_deg"], 12.0)
        s["mv_fps"] = max(s["mv_fps"], 700.0)
        specs.append(s)
    # a station high enough that steep shots leave the modelled troposphere (RuntimeWarning inside the loop)
    specs[0]["atmo"] = {"kind": "icao", "alt_ft": 35950.0}
    specs[0]["rel_deg"], specs[0]["look_deg"] = 30.0, 0.0
    # a measured table that starts above Mach 0 (as radar-derived curves do)
    tbl = [p for p in gen.smooth_table(rng, 25) if p[0] >= 0.4]
    specs[1]["table"] = tbl
    specs[1].pop("_restate", None)
    # winds that carry the rarely passed max_distance_feet keyword *below* their explicit until-distance (the explicit end counts)
    specs[2]["winds"] = [[round(rng.uniform(8, 25), 1), 90.0, 2400.0], [round(rng.uniform(5, 20), 1), 250.0, 1800.0]]
    specs[2]["wind_max_factor"] = 0.625
    shots = [build.shot(s) for s in specs]
    shared = 0
    # share objects on purpose
    for i in range(1, n):
        k = rng.random()
        j = rng.randrange(i)
        if k < 0.2:
            shots[i].weapon = shots[j].weapon
            shared += 1
        elif k < 0.4:
            shots[i].ammo = shots[j].ammo
            shared += 1
        elif k < 0.55:
            shots[i].atmo = shots[j].atmo
            shared += 1
        elif k < 0.7:
            shots[i].ammo.dm = DragModel(shots[i].ammo.dm.BC, shots[j].ammo.dm.drag_table)   # shared DragDataPoint objects
            shared += 1
        elif k < 0.8:
            shots[i]._winds = shots[j]._winds  # pylint: disable=protected-access
            shared += 1
    configs = [None, {"max_calc_step_size_feet": 1.0}, {"cMinimumVelocity": 600.0, "cMaximumDrop": -40.0},
               {"cMaxIterations": 3, "cZeroFindingAccuracy": 1e-7}]
    return specs, shots, configs, shared


def gen_ops(rng, n_shots, n_calcs, length):
    ops = []
    for _ in range(length):
        k = rng.random()
        i, c = rng.randrange(n_shots), rng.randrange(n_calcs)
        if k < 0.4:
            r = rng.choice([150.0, 300.0, 600.0, 1200.0])
            ops.append(["fire", i, c, r, r / rng.choice([3, 6, 12]), rng.random() < 0.4, rng.choice([0.0, 0.0, 0.02])])
        elif k < 0.55:
            ops.append(["zero", i, c, rng.choice([75.0, 150.0, 300.0, 600.0, 4000.0])])
        elif k < 0.65:
            ops.append(["elev", i, c, rng.choice([75.0, 300.0, 900.0])])
        elif k < 0.78:
            ops.append(["danger", i, c, 450.0, rng.choice([100.0, 300.0, 440.0, 2000.0]), rng.choice([0.5, 3.0])])
        elif k < 0.88:
            ops.append(["model", i, rng.choice(["multi", "plain", "multi_dicts", "multi_pooled", "multi_pooled"])])
        elif k < 0.905:
            ops.append(["fire", i, c, 60000.0, 6000.0, rng.random() < 0.5, 0.0])      # beyond reach: RangeError
        elif k < 0.915:
            # a card of a few feet tabulated every inch (record step below the solver's own step), or a range of a foot
            ops.append(["fire", i, c, rng.choice([2.0, 1.0]), rng.choice([1.0 / 12.0, 0.1]), False, 0.0])
        elif k < 0.93:
            ops.append(["unit_error", i])
        elif k < 0.955:
            ops.append(["construct", i, rng.choice(["vacuum", "vacuum", "atmo", "sight", "wind"])])
        else:
            # use the shot, let the caller modify it, use it again with the same calculator
            r = rng.choice([150.0, 300.0, 600.0])
            use = rng.choice([["fire", i, c, r, r / 3, rng.random() < 0.4, 0.0], ["zero", i, c, 150.0], ["elev", i, c, 300.0]])
            ops.append(list(use))
            ops.append(["mutate", i, rng.choice(["bc", "bullet", "table_inplace", "wind_until", "wind_append", "look", "mv", "atmo",
                                                 "sight_height", "twist"]), round(rng.uniform(0.7, 1.4), 3)])
            ops.append(list(use))
    return ops


def outcome(fn):
    try:
        return ("ok", snap(fn()))
    except pb.RangeError as e:
        return ("RangeError", e.reason, snap(e.incomplete_trajectory), snap(e.last_distance))
    except pb.ZeroFindingError as e:
        return ("ZeroFindingError", snap(e.zero_finding_error), e.iterations_count, snap(e.last_barrel_elevation))
    except (ArithmeticError, AttributeError, pb.UnitConversionError, ValueError) as e:
        return (type(e).__name__, str(e)[:80])


def pooled_bc_points():
    """BC points a caller keeps and hands to DragModelMultiBC again and again (given by Mach and by velocity, unsorted)."""
    return [BCPoint(0.417, V=pb.Velocity.FPS(2800.0)), BCPoint(0.400, Mach=1.2), BCPoint(0.409, V=pb.Velocity.FPS(2000.0))]


def perform(op, shot, calc, bcp=None):
    kind = op[0]
    if kind == "fire":
        return lambda: list(calc.fire(shot, Distance.Foot(op[3]), Distance.Foot(op[4]), op[5], op[6]))
    if kind == "zero":
        return lambda: calc.set_weapon_zero(shot, Distance.Foot(op[3]))
    if kind == "elev":
        return lambda: calc.barrel_elevation_for_target(shot, Distance.Foot(op[3]))
    if kind == "danger":
        def f():
            hit = calc.fire(shot, Distance.Foot(op[3]), Distance.Foot(15.0), extra_data=True)
            ds = hit.danger_space(Distance.Foot(op[4]), Distance.Foot(op[5]))
            rows = hit.trajectory
            return (rows.index(ds.begin), rows.index(ds.end), rows.index(ds.at_range), ds.target_height, ds.look_angle)
        return f
    if kind == "model":
        def g():
            tbl = shot.ammo.dm.drag_table
            if op[2] == "plain":
                dm = DragModel(0.33, tbl)
            elif op[2] == "multi":
                dm = DragModelMultiBC([BCPoint(0.3, Mach=2.0), BCPoint(0.25, Mach=1.0)], tbl, 150, 0.3)
            elif op[2] == "multi_pooled":
                # the caller's own BC point objects, with bullet dimensions (the model's BC is then the sectional density)
                dm = DragModelMultiBC(bcp if bcp is not None else pooled_bc_points(), tbl, 168, 0.308, 1.2)
            else:
                dm = DragModelMultiBC([BCPoint(0.3, Mach=2.0)], pb.TableG7)
            return (dm.BC, [(p.Mach, p.CD) for p in dm.drag_table])
        return g
    if kind == "unit_error":
        return lambda: shot.weapon.sight_height >> Unit.Degree
    if kind == "construct":
        # objects of the less used public classes are built (and a vacuum shot fired) next to the pooled shots
        def h():
            what = op[2]
            if what == "vacuum":
                vac = pb.Vacuum(Distance.Foot(1200.0), pb.Temperature.Celsius(5.0))
                sh = pb.Shot(weapon=pb.Weapon(Distance.Inch(2.0)), ammo=pb.Ammo(DragModel(0.3, pb.TableG7), pb.Velocity.FPS(2500.0)),
                             look_angle=pb.Angular.Degree(6.0), atmo=vac)
                rows = list(Calculator().fire(sh, Distance.Foot(1500.0), Distance.Foot(500.0)))
                return [(r.time, r.mach) for r in rows]
            if what == "atmo":
                a = pb.Atmo(Distance.Foot(3000.0), pb.Pressure.hPa(880.0), pb.Temperature.Celsius(-5.0), 60.0)
                a.humidity = 0.3
                return a.get_density_factor_and_mach_for_altitude(4000.0)
            if what == "sight":
                s = pb.Sight("SFP", Distance.Yard(100), pb.Angular.Mil(0.1), pb.Angular.Mil(0.2))
                return tuple(s.get_adjustment(Distance.Yard(300), pb.Angular.Mil(1.0), pb.Angular.Mil(-0.5), 8.0))
            w = pb.Wind(pb.Velocity.FPS(10.0), pb.Angular.Degree(45.0), max_distance_feet=900.0)
            return (w.until_distance >> Distance.Foot, pb.Wind().until_distance >> Distance.Foot)
        return h
    raise ValueError(kind)


def mutate(op, shot, shots):
    """The caller changes an argument object through its public attributes (between calls, never during one)."""
    what, k = op[2], op[3]
    dm = shot.ammo.dm
    if what == "bc":
        dm.BC = dm.BC * k
    elif what == "bullet":
        dm.weight, dm.length, dm.diameter = pb.Weight.Grain(150.0 * k), Distance.Inch(1.2 * k), Distance.Inch(0.3 * k)
    elif what == "table_inplace":
        for p in dm.drag_table[len(dm.drag_table) // 3:]:
            p.CD *= k
    elif what == "wind_until":
        w = shot._winds[0]  # pylint: disable=protected-access
        w.until_distance = Distance.Foot(max(30.0, (w.until_distance >> Distance.Foot) * 0.3 if (w.until_distance >> Distance.Foot) < 1e6 else 200.0))
        w.velocity = pb.Velocity.FPS(20.0 * k)
    elif what == "wind_append":
        shot._winds.append(pb.Wind(pb.Velocity.FPS(25.0 * k), pb.Angular.Degree(270.0), Distance.Foot(5000.0)))  # pylint: disable=protected-access
    elif what == "look":
        shot.look_angle = pb.Angular.Degree(8.0 * (k - 1.0))
    elif what == "mv":
        shot.ammo.mv = pb.Velocity.FPS(max(700.0, (shot.ammo.mv >> pb.Velocity.FPS) * k))
    elif what == "atmo":
        shot.atmo = pb.Atmo.icao(Distance.Foot(3000.0 * k))
    elif what == "sight_height":
        shot.weapon.sight_height = Distance.Inch(2.0 * k)
    elif what == "twist":
        shot.weapon.twist = Distance.Inch(9.0 * k)


def pool_snapshot(shots, bcp=None):
    return {"shots": [snap(s) for s in shots], "bc_points": snap(bcp) if bcp is not None else None,
            "tables": {n: [(p["Mach"], p["CD"]) for p in getattr(pb, "Table" + n)] for n in TABLE_NAMES},
            "globals": snap(monitors.globals_snapshot())}


def mask_zero(snapshot, weapon_ids, shots):
    """Blank the stored zero of the weapons a zeroing is allowed to change."""
    out = copy.deepcopy(snapshot)
    for k, s in enumerate(shots):
        if id(s.weapon) in weapon_ids:
            out["shots"][k][1]["weapon"][1]["zero_elevation"] = "<masked>"
    return out


# ----------------------------------------------------------------------------- history
def check_history(ctx, case):
    import random
    monitors.reset_all()
    rng = random.Random(case["seed"])
    specs, shots, configs, shared = make_pool(rng)
    ctx.count("shared_objects_in_pool", shared)
    calcs = [Calculator(_config=dict(c)) if c else Calculator() for c in configs]
    ops = gen_ops(rng, len(shots), len(calcs), case["length"])
    bcp = pooled_bc_points()
    bcp_objects = list(bcp)      # the same BCPoint objects in a list of our own: the library may reorder the list it is handed, not the points
    ctx.count("histories")
    zero_or_raise = False
    with monitors.quiet():
        for step, op in enumerate(ops):
            ctx.count("ops")
            ctx.count("op_" + op[0])
            shot = shots[op[1]]
            if op[0] == "mutate":
                mutate(op, shot, shots)
                ctx.count("mutation_" + op[2])
                continue
            cfg = configs[op[2]] if len(op) > 2 and isinstance(op[2], int) else None
            calc = calcs[op[2]] if len(op) > 2 and isinstance(op[2], int) else None
            if op[0] == "fire" and op[1] == 0:
                ctx.count("warning_emitting_ops")
            # model: same operation on a deep copy with a brand-new calculator
            twin_shot = copy.deepcopy(shot)
            twin_calc = (Calculator(_config=dict(cfg)) if cfg else Calculator())
            want = outcome(perform(op, twin_shot, twin_calc, copy.deepcopy(bcp)))
            before = pool_snapshot(shots, bcp_objects)
            ctx.count("pool_snapshots")
            got = outcome(perform(op, shot, calc, bcp))
            after = pool_snapshot(shots, bcp_objects)
            ctx.count("results_compared")
            c = dict(case, op_index=step, op=op)
            if got[0] != "ok":
                ctx.count("ops_raised")
                ctx.count("raised_" + got[0])
                zero_or_raise = True
            if got != want:
                d = diff(want, got)
                ctx.violation("result-depends-on-history." + op[0],
                              f"operation #{step} {op} inside the history gives a different result than the same operation on a copy of its "
                              f"arguments with a fresh calculator: at {d[0] if d else '?'}: {unhex(d[1]) if d else want!r} vs {unhex(d[2]) if d else got!r}", c)
            allowed = set()
            if op[0] == "zero":
                zero_or_raise = True
                if got[0] == "ok":
                    allowed = {id(shot.weapon)}
                    ctx.count("zero_changes_accepted")
                    if snap(shot.weapon.zero_elevation) != got[1]:
                        ctx.violation("zero.not-stored", f"set_weapon_zero returned {got[1]} but the weapon stores {snap(shot.weapon.zero_elevation)}", c)
            a, b = mask_zero(before, allowed, shots), mask_zero(after, allowed, shots)
            if a != b:
                d = diff(a, b)
                ctx.violation("argument-mutated." + op[0], f"operation #{step} {op} changed {d[0]}: {unhex(d[1])!r} -> {unhex(d[2])!r}", c, path=d[0])
            if op[0] == "zero" and got[0] != "ok" and before != after:
                ctx.violation("zero.failed-but-changed", f"failed zeroing #{step} {op} ({got[0]}) changed the pool", c)
            # the twin must not have been mutated either (other than by a successful zeroing)
    ctx.case(case, nontrivial=zero_or_raise)
    monitors.reset_all()


# ----------------------------------------------------------------------------- isolation of separately built arguments
def check_isolation(ctx, case):
    """Two argument sets built separately from the same specification share nothing a caller can change: after every public
    edit of set A (attributes, in-place table edits, winds, Atmo.humidity, zeroing, display-unit relabels) set B - built
    before the edits - still has its snapshot and its results, and a set built afterwards equals what B was."""
    import random
    monitors.reset_all()
    rng = random.Random(case["seed"])
    specs = []
    for k in range(4):
        s = gen.shot(rng, custom=0.2, wind_max=30.0, wind_n=2)
        s["rel_deg"], s["mv_fps"] = min(s["rel_deg"], 10.0), max(s["mv_fps"], 900.0)
        s.pop("_restate", None)
        if k < 2:
            s["atmo"] = {"kind": "icao", "alt_ft": case["alt_ft"]}          # equal factory arguments on purpose
        if k == 2:
            s["table"] = [p for p in gen.smooth_table(rng, 25) if p[0] >= 0.4]          # a table that starts above Mach 0
        specs.append(s)

    def build_set():
        out = [build.shot(s) for s in specs]
        # one shot that relies on the constructor's defaults (no atmosphere, no winds given)
        out.append(pb.Shot(weapon=build.weapon(specs[0]), ammo=build.ammo(specs[0])))
        return out

    def use(shots):
        res = []
        for sh in shots:
            res.append(outcome(lambda sh=sh: list(Calculator().fire(sh, Distance.Foot(case["range_ft"]), Distance.Foot(case["range_ft"] / 3), True))))
        return res

    with monitors.quiet():
        set_a, set_b = build_set(), build_set()
        want_snap = [snap(s) for s in set_b]
        want_res = use(set_b)
        use(set_a)
        for sh in set_a:
            for what in ("bc", "bullet", "table_inplace", "wind_until", "wind_append", "look", "mv", "sight_height", "twist"):
                if what.startswith("wind") and not sh._winds:  # pylint: disable=protected-access
                    continue
                mutate(["mutate", 0, what, case["k"]], sh, set_a)
                ctx.count("isolation_edits")
            sh.atmo.humidity = case["humidity"]
            if sh is set_a[0]:
                # ... and an unrelated vacuum shot is built and fired next to them
                perform(["construct", 0, "vacuum"], sh, None)()
            sh.relative_angle = pb.Angular.Degree(2.5)
            sh.cant_angle = pb.Angular.Degree(7.0)
            sh.ammo.powder_temp = pb.Temperature.Celsius(31.0)
            sh.ammo.temp_modifier, sh.ammo.use_powder_sensitivity = 0.03, True
            for q in (sh.look_angle, sh.weapon.sight_height, sh.weapon.twist, sh.weapon.zero_elevation, sh.ammo.mv, sh.atmo.altitude,
                      sh.atmo.pressure, sh.atmo.temperature):
                q << rng.choice(si.DIMENSIONS[type(q).__name__])
            ctx.count("isolation_edits", 6)
            outcome(lambda sh=sh: Calculator().set_weapon_zero(sh, Distance.Foot(300.0)))
        use(set_a)
        ctx.count("isolation_sets")
        got_snap = [snap(s) for s in set_b]
        if got_snap != want_snap:
            d = diff(want_snap, got_snap)
            ctx.violation("isolation.other-argument-set-changed", f"editing one argument set changed a separately built one at {d[0]}: "
                                                                  f"{unhex(d[1])!r} -> {unhex(d[2])!r}", case, path=d[0])
        got_res = use(set_b)
        ctx.count("isolation_results_compared", len(got_res))
        if got_res != want_res:
            d = diff(want_res, got_res)
            ctx.violation("isolation.result-depends-on-other-arguments", f"the result for an untouched argument set changed after a separately built "
                                                                         f"set was edited: at {d[0] if d else '?'}", case)
        # ... nor does the library's public debug-logging switch
        pb.set_debug(True)
        try:
            logged = use(set_b)
        finally:
            pb.set_debug(False)
        ctx.count("isolation_results_compared", len(logged))
        if logged != want_res:
            d = diff(want_res, logged)
            ctx.violation("isolation.result-depends-on-debug-logging", f"with set_debug(True) the result for an untouched argument set differs at {d[0] if d else '?'}", case)
        set_c = build_set()
        late_snap = [snap(s) for s in set_c]
        if late_snap != want_snap:
            d = diff(want_snap, late_snap)
            ctx.violation("isolation.construction-depends-on-history", f"arguments built from the same specification after the edits differ from those "
                                                                       f"built before at {d[0]}: {unhex(d[1])!r} -> {unhex(d[2])!r}", case, path=d[0])
        if use(set_c) != want_res:
            ctx.violation("isolation.construction-depends-on-history", "arguments built from the same specification after the edits give other results", case)
    ctx.case(case, nontrivial=True)
    monitors.reset_all()


# ----------------------------------------------------------------------------- threads
def check_threads(ctx, case):
    import random
    import warnings
    monitors.reset_all()
    rng = random.Random(case["seed"])
    specs, shots, configs, _ = make_pool(rng)
    n_threads = case["threads"]
    plans = []
    for t in range(n_threads):
        cfg = configs[t % len(configs)]
        ops = []
        for _ in range(case["ops_per_thread"]):
            i = rng.randrange(len(shots))
            if rng.random() < 0.6:
                r = rng.choice([45.0, 90.0, 150.0])
                ops.append(["fire", i, 0, r, r / 3, rng.random() < 0.4, 0.0])
            elif rng.random() < 0.5:
                ops.append(["zero", i, 0, rng.choice([45.0, 90.0])])
            else:
                ops.append(["elev", i, 0, 60.0])
        if t == 0:
            ops.append(["fire", 0, 0, 150.0, 50.0, False, 0.0])        # warning-emitting shot
        plans.append((cfg, ops))
    warnings.simplefilter("ignore")
    # sequential goldens: fresh calculator, deep copies
    goldens = []
    for cfg, ops in plans:
        g = []
        for op in ops:
            sh = copy.deepcopy(shots[op[1]])
            g.append(outcome(perform(op, sh, Calculator(_config=dict(cfg)) if cfg else Calculator())))
        goldens.append(g)
    before = pool_snapshot(shots)
    results = [None] * n_threads
    errors = []
    watchdog = []
    barrier = threading.Barrier(n_threads)

    def worker(t):
        try:
            cfg, ops = plans[t]
            calc = Calculator(_config=dict(cfg)) if cfg else Calculator()
            private = {}
            out = []
            barrier.wait(timeout=900)
            for op in ops:
                if op[0] == "zero":          # zeroing writes: on a thread-private copy
                    sh = private.setdefault(op[1], copy.deepcopy(shots[op[1]]))
                    sh = copy.deepcopy(shots[op[1]])
                else:
                    sh = shots[op[1]]        # shared, read-only
                out.append(outcome(perform(op, sh, calc)))
            results[t] = out
        except threading.BrokenBarrierError:
            watchdog.append(t)            # wall clock on a loaded machine: inconclusive, never a verdict
        except BaseException as e:  # pylint: disable=broad-except
            errors.append(f"thread {t}: {type(e).__name__}: {e}")

    old_interval = sys.getswitchinterval()
    sys.setswitchinterval(1e-6)
    inj = monitors.YieldInjector(os.environ.get("VF_REPO", "/repo"), probability=case["p_yield"], seed=case["seed"])
    try:
        with inj:
            threads = [threading.Thread(target=worker, args=(t,)) for t in range(n_threads)]
            for th in threads:
                th.start()
            for th in threads:
                th.join(timeout=1800)
            if any(th.is_alive() for th in threads):
                watchdog.append(-1)
    finally:
        sys.setswitchinterval(old_interval)
    summ = inj.summary()
    ctx.count("thread_rounds")
    ctx.count("thread_switch_sites", summ["distinct_switch_sites"])
    ctx.count("thread_yields_injected", summ["yields_injected"])
    ctx.count("thread_line_events", summ["line_events"])
    ctx.max("distinct_switch_sites_in_one_round", summ["distinct_switch_sites"])
    ctx.note("sample_switch_sites", summ["sample_switch_sites"])
    c = dict(case)
    if watchdog:
        ctx.skip("thread round hit its wall-clock watchdog")
        return
    if errors or any(r is None for r in results):
        ctx.violation("thread.crashed", f"a worker thread did not finish: {errors[:2]}", c)
    for t, (got, want) in enumerate(zip(results, goldens)):
        if got is None:
            continue
        for k, (g, w) in enumerate(zip(got, want)):
            ctx.count("thread_results_compared")
            if g != w:
                d = diff(w, g)
                ctx.violation("thread.result-differs", f"thread {t} op #{k} {plans[t][1][k]}: result differs from the sequential golden at "
                                                       f"{d[0] if d else '?'}: {unhex(d[1]) if d else w!r} vs {unhex(d[2]) if d else g!r}", c, thread=t, op_index=k)
                break
    after = pool_snapshot(shots)
    if before != after:
        d = diff(before, after)
        ctx.violation("thread.shared-argument-mutated", f"shared read-only pool changed during the round at {d[0]}: {unhex(d[1])!r} -> {unhex(d[2])!r}", c)
    ctx.case(dict(c, switch_sites=summ["distinct_switch_sites"], yields=summ["yields_injected"]),
             nontrivial=summ["distinct_switch_sites"] > 0)
    monitors.reset_all()


def run(ctx):
    n_hist, n_rounds, n_iso = (28, 14, 14) if ctx.tier == "quick" else (1400, 280, 700)
    todo = {"threads": ctx.share(n_rounds), "isolation": ctx.share(n_iso), "history": ctx.share(n_hist)}
    # the three kinds of case take turns, so that a run cut short by its deadline has still observed every kind
    while any(todo.values()) and ctx.time_left():
        for kind in ("threads", "isolation", "history", "history"):
            if not todo[kind] or not ctx.time_left():
                continue
            todo[kind] -= 1
            if kind == "threads":
                check_threads(ctx, {"kind": "threads", "seed": ctx.rng.getrandbits(40), "threads": 8, "ops_per_thread": 2 if ctx.tier == "quick" else 5,
                                    "p_yield": ctx.rng.choice([0.001, 0.003, 0.01])})
            elif kind == "isolation":
                check_isolation(ctx, {"kind": "isolation", "seed": ctx.rng.getrandbits(40), "alt_ft": ctx.rng.choice([0.0, round(ctx.rng.uniform(0, 9000), 1)]),
                                      "humidity": round(ctx.rng.uniform(20, 95), 1), "k": round(ctx.rng.uniform(0.7, 1.4), 3),
                                      "range_ft": ctx.rng.choice([300.0, 900.0, 2400.0])})
            else:
                check_history(ctx, {"kind": "history", "seed": ctx.rng.getrandbits(40),
                                    "length": ctx.rng.choice([20, 40, 80] if ctx.tier == "quick" else [20, 40, 80, 120, 200])})


def replay(ctx, case):
    if case["kind"] == "isolation":
        check_isolation(ctx, {k: case[k] for k in ("kind", "seed", "alt_ft", "humidity", "k", "range_ft")})
    elif case["kind"] == "threads":
        check_threads(ctx, {k: case[k] for k in ("kind", "seed", "threads", "ops_per_thread", "p_yield")})
    else:
        check_history(ctx, {k: case[k] for k in ("kind", "seed", "length")})
