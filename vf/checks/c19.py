"""C19 - sight click counts are the angular correction divided by the effective click value.

Monitor shape: algebraic checker on the real Sight objects; oracle = formula of the statement with click sizes
converted to radians by R-SI."""
import math

import py_ballisticcalc as pb
from py_ballisticcalc import Calculator, Distance, PreferredUnits, Sight, Unit

from vf import build, gen
from vf import refs_si as si
from vf.build import reset_globals

ID = "C19"
RULE = ("random sights: focal plane in {FFP, SFP, LWIR}, horizontal != vertical click sizes in all 9 angular units "
        "(explicit or bare under a random preferred adjustment unit), calibration/target distances in all distance "
        "units (explicit or bare), magnification 1-50, corrections of both signs given directly in any angular unit or "
        "taken from rows of a real trajectory; plus construction rejections; a case = (sight, query); non-trivial "
        "when h click != v click and both corrections are non-zero")
MUST_OBSERVE = ["clicks_checked", "plane_FFP", "plane_SFP", "plane_LWIR", "from_trajectory_row", "linearity_checked",
                "rejections_checked", "unequal_clicks", "units_switched_after_construction", "sights_recalibrated_after_use", "from_event_row"]
ASSUMPTIONS = ["click sizes and corrections converted to radians with R-SI (vf/refs_si.py)",
               "for SFP the product nominal x ratio x magnification is accepted in either linear reading (in radians "
               "or in the click's own unit); they differ only for the two tangent units, by < 1e-6"]
ANG = si.DIMENSIONS["Angular"]
DIST = si.DIMENSIONS["Distance"]
REL = 1e-9


def budget(tier):
    return {"shards": 14, "deadline_s": 45 if tier == "quick" else 600}


def ang(d):
    """{'rad':, 'unit':, 'bare':} -> argument for the library."""
    val = si.from_base("Angular", d["unit"], d["rad"])
    if d.get("bare"):
        return val
    return Unit[d["unit"]](val)


def dist(d):
    val = si.from_base("Distance", d["unit"], d["m"])
    if d.get("bare"):
        PreferredUnits.distance = Unit[d["unit"]]
        return val
    return Unit[d["unit"]](val)


def mk_sight(case):
    s = case["sight"]
    if s["h"].get("bare") or s["v"].get("bare"):
        PreferredUnits.adjustment = Unit[s["h"]["unit"]]
    kw = {}
    if s.get("scale") is not None:
        kw["scale_factor"] = dist(s["scale"])
    return Sight(s["plane"], h_click_size=ang(s["h"]), v_click_size=ang(s["v"]), **kw)


def eff(case, which, own_unit=False):
    s = case["sight"]
    c = s[which]
    nominal = c["rad"]
    mag = case["mag"]
    if s["plane"] == "FFP":
        return nominal
    if s["plane"] == "LWIR":
        return nominal / mag
    ratio = s["scale"]["m"] / case["target"]["m"]
    if own_unit:   # linear in the click's own (display) unit
        v = si.from_base("Angular", c["unit"], nominal) * ratio * mag
        return si.to_base("Angular", c["unit"], v)
    return nominal * ratio * mag


def matches(got, corr, case, which):
    cands = [corr / eff(case, which)]
    if case["sight"]["plane"] == "SFP" and case["sight"][which]["unit"] in si.TANGENT:
        cands.append(corr / eff(case, which, own_unit=True))
    return any(abs(got - w) <= REL * max(abs(w), 1e-300) for w in cands), cands[0]


def check_case(ctx, case):
    reset_globals()
    kind = case["kind"]
    if kind == "reject":
        ctx.count("rejections_checked")
        ctx.count("reject_" + case["why"])
        try:
            s = case["sight"]
            kw = {}
            if s.get("scale") is not None:
                kw["scale_factor"] = dist(s["scale"])
            h = None if s["h"] is None else ang(s["h"])
            v = None if s["v"] is None else ang(s["v"])
            if (s["h"] and s["h"].get("bare")) or (s["v"] and s["v"].get("bare")):
                PreferredUnits.adjustment = Unit[(s["h"] or s["v"])["unit"]]
            Sight(s["plane"], h_click_size=h, v_click_size=v, **kw)
        except Exception:  # pylint: disable=broad-except
            ctx.case(case, nontrivial=True, sample=False)
            reset_globals()
            return
        ctx.violation("not-rejected." + case["why"], f"Sight constructed although {case['why']}", case)
        ctx.case(case, nontrivial=True)
        reset_globals()
        return

    if case.get("recalibrated_from"):
        # the same Sight object first held other values and already answered this very query in that state
        old = dict(case, sight=dict(case["sight"], **case["recalibrated_from"]))
        sight = mk_sight(old)
        if kind == "direct":
            sight.get_adjustment(dist(case["target"]), ang(case["drop"]), ang(case["wind"]), case["mag"])
        final = mk_sight(case)
        sight.scale_factor, sight.h_click_size, sight.v_click_size = final.scale_factor, final.h_click_size, final.v_click_size
        ctx.count("sights_recalibrated_after_use")
    else:
        sight = mk_sight(case)
    if case.get("switch_units_after_construction"):
        # the session's preferred units change between building the sight and asking for clicks
        PreferredUnits.adjustment = Unit[case["switch_units_after_construction"][0]]
        PreferredUnits.angular = Unit[case["switch_units_after_construction"][1]]
        if case["switch_units_after_construction"][2]:
            sight.v_click_size << Unit[case["switch_units_after_construction"][0]]      # and a click size is displayed in another unit
        ctx.count("units_switched_after_construction")
    ctx.count("plane_" + case["sight"]["plane"])
    unequal = case["sight"]["h"]["rad"] != case["sight"]["v"]["rad"]
    if unequal:
        ctx.count("unequal_clicks")
    if kind == "direct":
        drop, wind = case["drop"]["rad"], case["wind"]["rad"]
        td = dist(case["target"])
        res = sight.get_adjustment(td, ang(case["drop"]), ang(case["wind"]), case["mag"])
        k = case["k"]
        res_k = sight.get_adjustment(dist(case["target"]), Unit.Radian(drop * k), Unit.Radian(wind * k), case["mag"])
        ctx.count("linearity_checked")
        for name, a, b in (("vertical", res.vertical, res_k.vertical), ("horizontal", res.horizontal, res_k.horizontal)):
            if not abs(b - k * a) <= 1e-9 * max(abs(k * a), 1e-300):
                ctx.violation("linearity", f"{name}: clicks(k*a) = {b!r} but k*clicks(a) = {k * a!r} (k={k})", case)
    else:  # from a trajectory row
        shot = build.shot(case["shot"])
        calc = Calculator()
        if case.get("zero_ft"):
            try:
                calc.set_weapon_zero(shot, Distance.Foot(case["zero_ft"]))
            except (pb.ZeroFindingError, pb.RangeError):
                pass
        try:
            rows = list(calc.fire(shot, Distance.Foot(case["range_ft"]), Distance.Foot(case["range_ft"] / case.get("rows", 4)),
                                  extra_data=bool(case.get("extra")), time_step=case.get("time_step", 0.0)))
        except pb.RangeError as err:
            rows = list(err.incomplete_trajectory)
        row = rows[min(case["row"], len(rows) - 1)]
        if case.get("event_row"):
            # a row that marks an event (sight-line crossing, sonic transition, apex) is a row like any other
            flagged = [r for r in rows if int(r.flag) & ~int(pb.TrajFlag.RANGE) and (r.distance >> Distance.Meter) > 0]
            if flagged:
                row = flagged[case["row"] % len(flagged)]
                ctx.count("from_event_row")
                ctx.count("from_event_row_flag_%d" % (int(row.flag) & ~int(pb.TrajFlag.RANGE)))
        drop, wind = row.drop_adj.raw_value, row.windage_adj.raw_value
        case = dict(case, target={"m": (row.distance >> Distance.Meter), "unit": "Meter"})
        if case["target"]["m"] <= 0:
            return
        res = sight.get_trajectory_adjustment(row, case["mag"])
        ctx.count("from_trajectory_row")
    ctx.count("clicks_checked")
    ok_v, want_v = matches(res.vertical, drop, case, "v")
    ok_h, want_h = matches(res.horizontal, wind, case, "h")
    if not ok_v:
        ctx.violation("clicks.vertical", f"{case['sight']['plane']}: vertical clicks {res.vertical!r}, expected "
                                         f"correction/effective click = {want_v!r}", case, got=res.vertical, want=want_v)
    if not ok_h:
        ctx.violation("clicks.horizontal", f"{case['sight']['plane']}: horizontal clicks {res.horizontal!r}, expected "
                                           f"{want_h!r}", case, got=res.horizontal, want=want_h)
    for got, corr, name in ((res.vertical, drop, "vertical"), (res.horizontal, wind, "horizontal")):
        if corr != 0 and math.copysign(1, got) != math.copysign(1, corr):
            ctx.violation("sign", f"{name} clicks {got!r} have the opposite sign of the correction {corr!r}", case)
    ctx.case(case, nontrivial=unequal and drop != 0 and wind != 0)
    reset_globals()


def gen_case(rng):
    def click(lo=2e-5, hi=2e-3):
        return {"rad": rng.uniform(lo, hi), "unit": rng.choice(ANG), "bare": rng.random() < 0.25}

    def corr():
        mag = rng.choice([0.0, rng.uniform(1e-5, 2e-2), rng.uniform(2e-2, 0.5)])
        return {"rad": mag * rng.choice([-1, 1]), "unit": rng.choice(ANG)}

    def length(lo, hi):
        return {"m": rng.uniform(lo, hi), "unit": rng.choice(DIST), "bare": rng.random() < 0.25}

    plane = rng.choice(["FFP", "SFP", "SFP", "LWIR"])
    h, v = click(), click()
    if rng.random() < 0.15:
        v = dict(h)
    if h["bare"] or v["bare"]:
        v["unit"] = h["unit"]     # bare clicks share the single preferred adjustment unit
    sight = {"plane": plane, "h": h, "v": v, "scale": length(25, 300) if (plane == "SFP" or rng.random() < 0.3) else None}
    k = rng.random()
    if k < 0.12:
        why = rng.choice(["unknown focal plane", "SFP without scale factor", "click size zero", "click size negative",
                          "click size missing"])
        s = dict(sight)
        if why == "unknown focal plane":
            s["plane"] = rng.choice(["TFP", "ffp", "", "SFP "])
        elif why == "SFP without scale factor":
            s["plane"], s["scale"] = "SFP", None
        elif why == "click size zero":
            s[rng.choice("hv")] = {"rad": 0.0, "unit": rng.choice(ANG), "bare": rng.random() < 0.5}
            s["h"]["unit"] = s["v"]["unit"] = s["h"]["unit"]
        elif why == "click size negative":
            w = rng.choice("hv")
            s[w] = dict(s[w], rad=-abs(s[w]["rad"]))
        else:
            s[rng.choice("hv")] = None
        return {"kind": "reject", "why": why, "sight": s}
    mag = rng.choice([1.0, round(rng.uniform(1, 50), 2), float(rng.randint(2, 25)), round(rng.uniform(0.25, 0.99), 2)])      # also reducing optics (< 1x)
    switch = [rng.choice(ANG), rng.choice(ANG), rng.random() < 0.5] if rng.random() < 0.3 else None
    if k < 0.8:
        tgt = length(10, 2000)
        if tgt["bare"] and sight["scale"] and sight["scale"]["bare"]:
            tgt["unit"] = sight["scale"]["unit"]
        recal = None
        if rng.random() < 0.25 and sight["scale"] is not None:
            recal = {"h": click(), "v": click(), "scale": length(25, 300)}
            recal["h"]["bare"] = recal["v"]["bare"] = recal["scale"]["bare"] = False
        return {"kind": "direct", "sight": sight, "mag": mag, "target": tgt, "drop": corr(), "wind": corr(),
                "k": rng.choice([-1.0, 2.0, 0.5, round(rng.uniform(-5, 5), 3)]), "switch_units_after_construction": switch,
                "recalibrated_from": recal}
    shot = gen.shot(rng, flat=True, custom=0.0, cant=False, wind_n=1)
    shot["winds"] = [[rng.uniform(3, 30), rng.choice([90.0, 270.0, rng.uniform(0, 360)]), None]]
    shot["look_deg"] = rng.choice([0.0, round(rng.uniform(-35, 35), 1)])
    case = {"kind": "row", "sight": sight, "mag": mag, "shot": shot, "range_ft": round(rng.uniform(150, 900), 1),
            "row": rng.choice([1, 2, 3, 4]), "switch_units_after_construction": switch}
    if rng.random() < 0.5:
        # the rows a shooter dials from: a zeroed rifle, the table with its event rows, the zero distance on the grid
        shot["sight_height_in"] = rng.choice([1.5, 2.0, 3.0])
        case["range_ft"] = rng.choice([600.0, 900.0, 1200.0])
        case.update(zero_ft=rng.choice([150.0, 300.0, 600.0]), rows=rng.choice([2, 4, 8]), extra=rng.random() < 0.8,
                    event_row=rng.random() < 0.6, row=rng.choice([1, 2, 3, 4, 5, 7]))
        if rng.random() < 0.2:
            case["time_step"] = rng.choice([0.05, 0.2])
    return case


def run(ctx):
    total = 20000 if ctx.tier == "quick" else 600000
    for _ in range(ctx.share(total)):
        if not ctx.time_left():
            break
        check_case(ctx, gen_case(ctx.rng))


def replay(ctx, case):
    check_case(ctx, case)
