"""C04 - every call terminates, and an incomplete trajectory is reported truthfully.

Monitor shape: step-budget monitor (M-ATMO: one call per integration step) enforcing the bounded restatement of
'terminates', plus a truthfulness checker of RangeError against the limits of the Config given to this calculator
and a twin run with bounded-relaxed limits."""
import math

import py_ballisticcalc as pb
from py_ballisticcalc import Distance, Velocity

from vf import build, gen, monitors, refs

ID = "C04"
RULE = ("hostile launches (vertical 90 / 89.99 deg, steep, downward to -90 deg, muzzle speeds 0, 1, 30, 49, 51 ft/s and "
        "normal ones, head winds stronger than the projectile) x limit triples velocity {0,50,300,1000,2000} x drop "
        "{-15000,-1000,-50,-1,0} x altitude {default, station-100, station-5, station, 0} x ranges mostly beyond reach, "
        "plain and extra-data modes; a case = (shot, config, request); non-trivial when the call raised RangeError or the "
        "launch is steeper than 45 deg")
MUST_OBSERVE = ["fires", "range_errors", "reason_velocity", "reason_drop", "reason_altitude", "normal_returns",
                "mode_plain", "mode_extra", "twin_runs", "twin_rows_compared", "budget_checked", "vertical_launches",
                "downward_launches", "slow_launches", "earlier_rows_checked", "zeroings_budgeted", "negative_velocity_limit"]
ASSUMPTIONS = ["bounded restatement of 'terminates': fire() must finish within 1.5 x P/calc_step + 1000 integration steps, P being "
               "the air-relative path length of an independent coarse RK4 flight continued until one of this configuration's "
               "limits is violated; nothing is claimed beyond that budget",
               "'without the limit' is a twin calculator with vmin 0 and drop / altitude limits 2000 ft lower (never unlimited)"]
DEFAULTS = {"cMinimumVelocity": 50.0, "cMaximumDrop": -15000.0, "cMinimumAltitude": -1410.748}
REASONS = {"velocity": "Minimum velocity reached", "drop": "Maximum drop reached", "altitude": "Minimum altitude reached"}
SLACK = 1e-11


def budget(tier):
    return {"shards": 14, "deadline_s": 75 if tier == "quick" else 1500}


def limits_of(cfg):
    c = dict(DEFAULTS)
    c.update({k: v for k, v in (cfg or {}).items() if k in DEFAULTS})
    return c["cMinimumVelocity"], c["cMaximumDrop"], c["cMinimumAltitude"]


def violated(row, alt0, lims):
    """Which limits the row violates, with a one-ulp-ish slack in either direction: (definitely, possibly)."""
    vmin, drop, malt = lims
    v = row.velocity >> Velocity.FPS
    y = row.height >> Distance.Foot
    defin, poss = [], []
    for name, val, lim in (("velocity", v, vmin), ("drop", y, drop), ("altitude", alt0 + y, malt)):
        tol = SLACK * max(abs(val), abs(lim), abs(alt0) if name == "altitude" else 0.0, 1.0)
        if val < lim - tol:
            defin.append(name)
        if val < lim + tol:
            poss.append(name)
    return defin, poss


def row_bits(r):
    return (r.time, r.distance.raw_value, r.velocity.raw_value, r.mach, r.height.raw_value, r.target_drop.raw_value,
            r.drop_adj.raw_value, r.windage.raw_value, r.windage_adj.raw_value, r.look_distance.raw_value,
            r.angle.raw_value, r.density_factor, r.drag, r.energy.raw_value, r.ogw.raw_value, int(r.flag))


def check_case(ctx, case):
    monitors.reset_all()
    spec, cfg, req = case["shot"], case.get("config") or {}, case["request"]
    shot = build.shot(spec)
    calc = build.calculator(cfg)
    lims = limits_of(cfg)
    alt0 = shot.atmo.altitude >> Distance.Foot
    calc_step = cfg.get("max_calc_step_size_feet", 0.5) / 2.0
    el = math.degrees(gen.elevation_rad(spec)[0])
    if abs(el) > 89.9:
        ctx.count("vertical_launches")
    if el < -5:
        ctx.count("downward_launches")
    if spec["mv_fps"] < 60:
        ctx.count("slow_launches")
    if lims[0] < 0:
        ctx.count("negative_velocity_limit")
    # ---- budget from an independent flight
    tc = calc._calc  # pylint: disable=protected-access
    tc._init_trajectory(shot)  # pylint: disable=protected-access
    with monitors.quiet():
        p_air, _, ref_reason = refs.fly_until_limits(spec, shot.atmo.get_density_factor_and_mach_for_altitude, tc.drag_by_mach,
                                                      alt0, *lims, h=1.0)
    if ref_reason is None:
        ctx.skip("reference flight did not reach a limit within 3e6 ft")
        return
    step_budget = int(1.5 * p_air / calc_step + 1000)
    ctx.count("fires")
    ctx.count("mode_extra" if req["extra"] else "mode_plain")
    counter = monitors.StepCounter(budget=step_budget)
    err = None
    rows = None
    with monitors.quiet(), counter:
        try:
            hit = calc.fire(shot, Distance.Foot(req["range_ft"]), Distance.Foot(req["step_ft"]), req["extra"], req.get("time_step", 0.0))
            rows = list(hit)
        except pb.RangeError as e:
            err = e
            rows = list(e.incomplete_trajectory)
        except (ArithmeticError, ValueError, IndexError, TypeError) as exc:
            # "it either returns a trajectory reaching the requested range, or raises a range error"
            ctx.violation("other-exception", f"fire() raised {type(exc).__name__}: {exc} - neither a trajectory nor a range error", case)
            ctx.case(case, nontrivial=True)
            return
        except monitors.StepBudgetExceeded:
            ctx.violation("no-termination-within-budget",
                          f"fire() took more than {step_budget} integration steps; an independent flight of this shot violates the "
                          f"'{ref_reason}' limit after {p_air:.0f} ft of air-relative path ({p_air / calc_step:.0f} steps of {calc_step} ft)",
                          case, budget=step_budget, reference_path_ft=p_air)
            ctx.case(case, nontrivial=True)
            return
    ctx.count("budget_checked")
    ctx.max("steps_over_budget", counter.steps / step_budget)
    if case.get("zero_ft"):
        # zeroing is a bounded number of such computations: (iteration cap + 1) x the same per-flight budget
        cap = cfg.get("cMaxIterations", 20)
        # ... of flights at the trial elevations, which range from the sight line upwards: the longest independent flight
        # over a fan of elevations bounds each of them
        p_max = p_air
        with monitors.quiet():
            for up in (0.0, 10.0, 20.0, 30.0, 45.0, 60.0):
                fan = dict(spec, zero_deg=0.0, rel_deg=min(up, 89.0 - spec.get("look_deg", 0.0)))
                p_fan, _, r_fan = refs.fly_until_limits(fan, shot.atmo.get_density_factor_and_mach_for_altitude, tc.drag_by_mach, alt0, *lims, h=2.0)
                if r_fan is not None:
                    p_max = max(p_max, p_fan)
        zero_flight_budget = int(1.5 * p_max / calc_step + 1000)
        zc = monitors.StepCounter(budget=(cap + 1) * zero_flight_budget)
        zshot = build.shot(spec)
        before = zshot.weapon.zero_elevation.raw_value
        ctx.count("zeroings_budgeted")
        with monitors.quiet(), zc:
            try:
                build.calculator(cfg).set_weapon_zero(zshot, Distance.Foot(case["zero_ft"]))
            except (pb.ZeroFindingError, pb.RangeError):
                ctx.count("zeroings_raised")
                if zshot.weapon.zero_elevation.raw_value != before:
                    ctx.violation("failed-zeroing-changed-stored-zero", "a failed zeroing changed the stored zero", case)
            except ZeroDivisionError:
                ctx.count("zeroings_raised")
            except monitors.StepBudgetExceeded:
                ctx.violation("zeroing-no-termination-within-budget",
                              f"set_weapon_zero took more than {(cap + 1) * zero_flight_budget} integration steps ({cap} iterations allowed, "
                              f"{zero_flight_budget} steps for the longest flight of a fan of elevations)", case)
        ctx.max("zero_steps_over_budget", zc.steps / ((cap + 1) * zero_flight_budget))
    nontrivial = err is not None or abs(el) > 45

    def bad(key, what, **kw):
        ctx.violation(key, what, case, **kw)

    if err is not None:
        ctx.count("range_errors")
        if not rows:
            bad("error.empty-trajectory", "RangeError carries no rows")
            ctx.case(case, nontrivial)
            return
        last = rows[-1]
        defin, poss = violated(last, alt0, lims)
        reason_name = next((k for k, v in REASONS.items() if v == err.reason), None)
        if reason_name is None:
            bad("error.unknown-reason", f"reason {err.reason!r} is not one of the three documented reasons")
        else:
            ctx.count("reason_" + reason_name)
            if reason_name not in poss:
                bad("error.reason-not-violated", f"reason '{err.reason}' but the last row (v={last.velocity >> Velocity.FPS!r} fps, "
                                                 f"y={last.height >> Distance.Foot!r} ft, altitude {alt0 + (last.height >> Distance.Foot)!r} ft) does "
                                                 f"not violate that limit {dict(zip(('vmin', 'drop', 'min_alt'), lims))}")
            order = ["velocity", "drop", "altitude"]
            earlier = [n for n in order[:order.index(reason_name)] if n in defin]
            if earlier:
                bad("error.reason-precedence", f"reason '{err.reason}' although the last row also violates the '{earlier[0]}' limit, which takes precedence")
        if not poss:
            bad("error.no-limit-violated", "the last row of the incomplete trajectory violates none of the configured limits")
        ld = err.last_distance
        if ld is None or ld.raw_value != last.distance.raw_value:
            bad("error.last-distance", f"last_distance {ld!r} is not the distance of the last row {last.distance!r}")
        body = rows[1:-1]
    else:
        ctx.count("normal_returns")
        n = int(math.floor(req["range_ft"] / req["step_ft"] + 1e-9))
        reach = rows[-1].distance >> Distance.Foot
        if reach < n * req["step_ft"] * (1 - 1e-9) - 1e-9:
            bad("return.short", f"returned normally but the last row is at {reach!r} ft, requested range {req['range_ft']} ft (step {req['step_ft']})")
        body = rows[1:]
    for i, r in enumerate(body, start=1):
        ctx.count("earlier_rows_checked")
        defin, _ = violated(r, alt0, lims)
        if defin:
            bad("row-violates-limit", f"row {i} of {len(rows)} (not the last of an incomplete trajectory) violates the '{defin[0]}' limit: "
                                      f"v={r.velocity >> Velocity.FPS!r} fps, y={r.height >> Distance.Foot!r} ft", row=i)
            break
    # ---- twin with bounded-relaxed limits: leading rows identical
    if err is not None and case.get("twin", True):
        relaxed = dict(cfg, cMinimumVelocity=min(0.0, lims[0]), cMaximumDrop=lims[1] - 2000.0, cMinimumAltitude=lims[2] - 2000.0)
        twin_counter = monitors.StepCounter(budget=step_budget * 3 + int(3 * 4000 / calc_step))
        with monitors.quiet(), twin_counter:
            try:
                trows = list(build.calculator(relaxed).fire(build.shot(spec), Distance.Foot(req["range_ft"]), Distance.Foot(req["step_ft"]),
                                                            req["extra"], req.get("time_step", 0.0)))
            except pb.RangeError as e2:
                trows = list(e2.incomplete_trajectory)
            except (ArithmeticError, ValueError, IndexError, TypeError) as exc:
                trows = None
                bad("other-exception", f"the same shot with relaxed limits {relaxed}: fire() raised {type(exc).__name__}: {exc} - neither a trajectory nor a range error")
            except monitors.StepBudgetExceeded:
                trows = None
                ctx.skip("twin run exceeded its own (generous) step budget")
        if trows is not None:
            ctx.count("twin_runs")
            lead = rows[:-1]
            if len(trows) < len(lead):
                bad("twin.fewer-rows", f"the same shot with relaxed limits has {len(trows)} rows, fewer than the {len(lead)} leading rows of the limited run")
            for i, (a, b) in enumerate(zip(lead, trows)):
                ctx.count("twin_rows_compared")
                if row_bits(a) != row_bits(b):
                    names = TrajectoryFields
                    j = next(k for k, (x, y) in enumerate(zip(row_bits(a), row_bits(b))) if x != y)
                    bad("twin.row-differs", f"row {i} differs from the same shot computed with relaxed limits: {names[j]} {row_bits(a)[j]!r} vs {row_bits(b)[j]!r}", row=i)
                    break
    ctx.case(case, nontrivial)
    monitors.reset_all()


TrajectoryFields = ("time", "distance", "velocity", "mach", "height", "target_drop", "drop_adj", "windage", "windage_adj",
                    "look_distance", "angle", "density_factor", "drag", "energy", "ogw", "flag")


def gen_case(rng):
    s = gen.shot(rng, custom=0.05, cant=rng.random() < 0.15, look=False, wind_n=0)
    s["zero_deg"] = 0.0
    k = rng.random()
    if k < 0.2:
        s["rel_deg"] = rng.choice([90.0, 89.99, 90.0, 88.0])
    elif k < 0.4:
        s["rel_deg"] = round(rng.uniform(30, 85), 2)
    elif k < 0.6:
        s["rel_deg"] = -round(rng.choice([rng.uniform(10, 60), rng.uniform(60, 90), 90.0]), 2)
    else:
        s["rel_deg"] = rng.choice([0.0, round(rng.uniform(-3, 15), 2)])
    if rng.random() < 0.3:
        s["look_deg"] = round(rng.uniform(-40, 40), 1)
        s["rel_deg"] = max(-90.0 - s["look_deg"], min(90.0 - s["look_deg"], s["rel_deg"]))
    if rng.random() < 0.3:
        s["mv_fps"] = rng.choice([0.0, 1.0, 30.0, 49.0, 51.0, 120.0])
    elif abs(s["rel_deg"]) > 60:
        s["mv_fps"] = min(s["mv_fps"], 1500.0)      # keeps vertical flights (and the CPU bill) bounded
    if rng.random() < 0.25:
        s["winds"] = [[round(rng.uniform(40, 90), 1), rng.choice([180.0, 180.0, 0.0, 90.0]), None]]
    if rng.random() < 0.4:
        s["atmo"] = {"kind": "icao", "alt_ft": rng.choice([0.0, 1500.0, 5000.0, 9000.0, -300.0, -1500.0])}
    alt0 = s["atmo"].get("alt_ft", 0.0)
    cfg = {}
    if rng.random() < 0.8:
        cfg["cMinimumVelocity"] = rng.choice([0.0, 50.0, 300.0, 1000.0, 2000.0, 900, round(rng.uniform(100, 1500), 2),
                                              -50.0, -800])      # a negative limit is one no speed ever violates
    if rng.random() < 0.8:
        cfg["cMaximumDrop"] = rng.choice([-15000.0, -1000.0, -50.0, -1.0, 0.0, -3000.0, -0.9, -10.75, round(-rng.uniform(0.1, 300), 3),
                                          -7, -250])      # whole and fractional feet, floats and ints
    if rng.random() < 0.6:
        cfg["cMinimumAltitude"] = rng.choice([alt0 - 100.0, alt0 - 5.0, alt0, 0.0, alt0 - 1000.0, 0, -0.0,
                                              alt0 + 0.1, alt0 + 40.0, alt0 + 2000.0])      # also a floor above the firing point
    if rng.random() < 0.1:
        cfg["max_calc_step_size_feet"] = rng.choice([1.0, 2.0])
    # keep the worst-case flight (and therefore CPU time) bounded: tight-ish drop limit for fast vertical shots
    if abs(s["rel_deg"] + s.get("look_deg", 0.0)) > 60 and s["mv_fps"] > 600 and cfg.get("cMaximumDrop", -15000.0) < -3000.0:
        cfg["cMaximumDrop"] = -3000.0
    r_ft = rng.choice([300.0, 3000.0, 30000.0, 90000.0])
    req = {"range_ft": r_ft, "step_ft": r_ft / rng.choice([3, 10, 30]), "extra": rng.random() < 0.5}
    if rng.random() < 0.15:
        req["time_step"] = rng.choice([0.05, 0.5])
    case = {"shot": s, "config": cfg, "request": req, "twin": True}
    if rng.random() < 0.25:
        case["zero_ft"] = rng.choice([75.0, 300.0, 3000.0, 30000.0])
    return case


def run(ctx):
    total = 420 if ctx.tier == "quick" else 15000
    for _ in range(ctx.share(total)):
        if not ctx.time_left():
            break
        check_case(ctx, gen_case(ctx.rng))


def replay(ctx, case):
    check_case(ctx, case)
