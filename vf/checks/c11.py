"""C11 - what is recorded never changes what is computed.

Monitor shape: metamorphic - the same shot and solver configuration is fired under a family of requests (range, step,
time step, extra data) and every pair of rows that the two results place at the same distance is compared."""
import py_ballisticcalc as pb
from py_ballisticcalc import Angular, Distance, Energy, TrajFlag, Velocity

from vf import build, gen, monitors

ID = "C11"
RULE = ("random shots (winds, inclined, canted, all tables) x request families: base (R, S, plain) against extra data, 2R, "
        "k*S, S/k, non-nested steps sharing some multiples, time steps 1e-3..0.1 s with/without extra data, (R, S, time step, plain) "
        "against (R, S, time step, extra data), and ranges "
        "beyond the projectile's reach (RangeError results compared up to the terminal row); a case = (shot, base "
        "request, variant); non-trivial when the variant differs from the base in at least one request parameter and "
        "at least 2 rows are shared")
MUST_OBSERVE = ["request_pairs", "row_pairs_compared", "variant_extra", "variant_longer", "variant_coarser", "variant_finer",
                "variant_time_step", "subset_checks", "same_calculator_requests", "fresh_calculator_requests", "extra_only_rows_checked", "rangeerror_results", "variant_other_step", "variant_sub_step", "variant_extra_time_step",
                "events_at_fine_steps_cases", "event_rows_beside_fine_steps"]
ASSUMPTIONS = ["rows are matched by distance to 1e-9 relative among rows carrying the RANGE flag; the terminal row of an "
               "incomplete trajectory and the flag-less 'second point' row are not range-card rows and are not compared"]
REL = 1e-9
# |d column / d distance| bounds per foot (time: v >= 50 ft/s; heights: slopes up to 89 deg; angles: curvature g/v^2 and drag)
SLOPE = {"time": 0.02, "height": 60.0, "windage": 60.0, "speed": 50.0, "mach": 0.05, "angle": 0.05, "energy": 0.1,
         "target_drop": 60.0, "drop_adj": 1.0}
EVENT_BITS = TrajFlag.ZERO_UP | TrajFlag.ZERO_DOWN | TrajFlag.MACH | TrajFlag.APEX


def budget(tier):
    return {"shards": 14, "deadline_s": 60 if tier == "quick" else 1200}


def fire(calc, shot, req):
    with monitors.quiet():
        try:
            hit = calc.fire(shot, Distance.Foot(req["range_ft"]), Distance.Foot(req["step_ft"]), req.get("extra", False),
                            req.get("time_step", 0.0))
            return list(hit), False
        except pb.RangeError as err:
            return list(err.incomplete_trajectory), True


def fields(r):
    return {"time": r.time, "height": r.height >> Distance.Foot, "windage": r.windage >> Distance.Foot,
            "speed": r.velocity >> Velocity.FPS, "mach": r.mach, "angle": r.angle >> Angular.Radian,
            "energy": r.energy >> Energy.FootPound, "target_drop": r.target_drop >> Distance.Foot,
            "drop_adj": r.drop_adj >> Angular.Radian}


def match(rows_a, rows_b):
    """Pairs (i, j) of RANGE rows with equal distance (1e-9 relative); both lists ascending in distance."""
    out, j = [], 0
    for i, a in enumerate(rows_a):
        if not a.flag & TrajFlag.RANGE:
            continue
        xa = a.distance >> Distance.Foot
        while j < len(rows_b) and (rows_b[j].distance >> Distance.Foot) < xa - REL * max(1.0, xa):
            j += 1
        k = j
        while k < len(rows_b) and abs((rows_b[k].distance >> Distance.Foot) - xa) <= REL * max(1.0, xa):
            if rows_b[k].flag & TrajFlag.RANGE:
                out.append((i, k))
                break
            k += 1
    return out


def match_by_time(rows_a, rows_b):
    """Pairs (i, j) of rows with equal time (1e-12 relative); time is strictly ascending in every result, distance is not
    (a lofted projectile may end up drifting back).  Used where both requests record at the same integration points."""
    out, j = [], 0
    for i, a in enumerate(rows_a):
        if not a.flag & TrajFlag.RANGE:
            continue
        while j < len(rows_b) and rows_b[j].time < a.time - 1e-12 * max(1.0, a.time):
            j += 1
        if j < len(rows_b) and abs(rows_b[j].time - a.time) <= 1e-12 * max(1.0, a.time):
            out.append((i, j))
    return out


def check_case(ctx, case):
    monitors.reset_all()
    shot = build.shot(case["shot"])
    cfg = case.get("config")
    base = case["base"]
    calc = build.calculator(cfg)       # one calculator serves every request of the case, as a user's would
    if case.get("zero_first_ft"):
        with monitors.quiet():
            try:
                calc.set_weapon_zero(shot, Distance.Foot(case["zero_first_ft"]))
            except (pb.ZeroFindingError, pb.RangeError):
                pass
    zero_raw = shot.weapon.zero_elevation.raw_value
    if case.get("events_at_fine_steps"):
        ctx.count("events_at_fine_steps_cases")
    rows_a, raised_a = fire(calc, shot, base)
    if raised_a:
        ctx.count("rangeerror_results")
        rows_a = rows_a[:-1]
    rows_a0, raised_a0, base0 = rows_a, raised_a, base
    for var in case["variants"]:
        req = var["request"]
        rows_a, raised_a, base = rows_a0, raised_a0, base0
        if "base_request" in var:
            # this variant is compared with its own base (the plain request with the same time step)
            base = var["base_request"]
            shot_a = build.shot(case["shot"])
            shot_a.weapon.zero_elevation = pb.Angular.Radian(zero_raw)
            rows_a, raised_a = fire(calc, shot_a, base)
            if raised_a:
                ctx.count("rangeerror_results")
                rows_a = rows_a[:-1]
        shot_b = build.shot(case["shot"])
        shot_b.weapon.zero_elevation = pb.Angular.Radian(zero_raw)
        rows_b, raised_b = fire(calc if var.get("same_calculator", True) else build.calculator(cfg), shot_b, req)
        if raised_b:
            ctx.count("rangeerror_results")
            rows_b = rows_b[:-1]
        ctx.count("request_pairs")
        ctx.count("same_calculator_requests" if var.get("same_calculator", True) else "fresh_calculator_requests")
        ctx.count("variant_" + var["kind"])
        c = {"shot": case["shot"], "config": cfg, "base": base0, "variants": [var], "zero_first_ft": case.get("zero_first_ft")}
        pairs = match_by_time(rows_a, rows_b) if var["kind"] == "extra_time_step" else match(rows_a, rows_b)
        for i, j in pairs:
            fa, fb = fields(rows_a[i]), fields(rows_b[j])
            ctx.count("row_pairs_compared")
            # the two requests reach "the same distance" through different chains of additions (k x step): the rows sit
            # |dx| apart (1e-10 ft typical) and every column moves by its slope x |dx| - generous slope bounds per ft
            dx = abs((rows_a[i].distance >> Distance.Foot) - (rows_b[j].distance >> Distance.Foot))
            for name in fa:
                scale = max(abs(fa[name]), abs(fb[name]))
                if not abs(fa[name] - fb[name]) <= REL * scale + SLOPE[name] * dx * max(1.0, scale if name == "energy" else 1.0) + 1e-300:
                    ctx.violation("row-differs." + var["kind"],
                                  f"row at {rows_a[i].distance >> Distance.Foot:.4f} ft: {name} = {fa[name]!r} under {base} but "
                                  f"{fb[name]!r} under {req}", c, field=name, a=fa[name], b=fb[name])
                    break
            else:
                continue
            break
        # subset relations
        lim = min(base["range_ft"], req["range_ft"])
        if var["expect_superset"]:
            ctx.count("subset_checks")
            matched = {i for i, _ in pairs}
            for i, a in enumerate(rows_a):
                xa = a.distance >> Distance.Foot
                if a.flag & TrajFlag.RANGE and xa <= lim * (1 + 1e-12) and i not in matched:
                    # rows_b may legitimately end earlier only if it raised
                    if raised_b and (not rows_b or xa > (rows_b[-1].distance >> Distance.Foot)):
                        continue
                    if raised_a and not raised_b:
                        pass
                    ctx.violation("subset." + var["kind"], f"row at {xa!r} ft of the {base} result has no counterpart in the {req} result",
                                  c, distance=xa)
                    break
        if var["kind"] in ("extra", "extra_time_step"):
            matched_b = {j for _, j in pairs}
            for j, b in enumerate(rows_b):
                if j in matched_b:
                    continue
                ctx.count("extra_only_rows_checked")
                if case.get("events_at_fine_steps") and b.flag & EVENT_BITS:
                    ctx.count("event_rows_beside_fine_steps")
                xb = b.distance >> Distance.Foot
                if not b.flag & EVENT_BITS and not (j == len(rows_b) - 1 and not b.flag & TrajFlag.RANGE):
                    if xb > lim * (1 + 1e-9) or (raised_a and rows_a and xb > (rows_a[-1].distance >> Distance.Foot)):
                        continue
                    ctx.violation("extra.unflagged-row", f"extra-data row at {xb!r} ft (flag {int(b.flag)}) is neither a plain row nor an event row", c)
                    break
        ctx.case(c, nontrivial=len(pairs) >= 2)
    monitors.reset_all()


def gen_event_case(rng):
    """Recording steps of the order of the integration step around the events: a launch just above Mach 1 with a low BC goes
    subsonic within the first few hundred feet and a sight above the bore with a small hold crosses the sight line twice, so
    the event rows of the extra-data request fall into the same integration steps as requested distances."""
    s = gen.shot(rng, custom=0.0, look=rng.random() < 0.3, cant=False, wind_n=rng.choice([0, 1]), wind_max=20.0, range_ft=300.0)
    s["atmo"] = {"kind": "icao", "alt_ft": rng.choice([0.0, 3000.0])}
    s["mv_fps"] = round(rng.uniform(1125.0, 1230.0), 1)
    s["bc"] = round(rng.uniform(0.06, 0.25), 4)
    s["sight_height_in"] = rng.choice([1.5, 2.5, 0.0])
    s["zero_deg"], s["rel_deg"] = round(rng.uniform(0.1, 0.5), 3), 0.0
    s["look_deg"] = max(-20.0, min(20.0, s["look_deg"]))
    r = rng.choice([90.0, 150.0, 240.0])
    step = rng.choice([0.25, 0.3, 0.5, 0.5, 0.75, 1.0, 1.5])
    base = {"range_ft": r, "step_ft": step, "extra": False, "time_step": 0.0}
    ts = rng.choice([0.0005, 0.002, 0.01])
    variants = [
        {"kind": "extra", "request": dict(base, extra=True), "expect_superset": True},
        {"kind": "extra", "request": dict(base, extra=True, range_ft=r + 7 * step), "expect_superset": True},
        {"kind": "extra_time_step", "base_request": dict(base, time_step=ts), "request": dict(base, time_step=ts, extra=True), "expect_superset": True},
        {"kind": "coarser", "request": dict(base, step_ft=step * 3, extra=True), "expect_superset": False},
    ]
    for v in variants:
        v["same_calculator"] = rng.random() < 0.8
    return {"shot": s, "base": base, "variants": variants, "zero_first_ft": None, "events_at_fine_steps": True}


def gen_case(rng):
    if rng.random() < 0.25:
        return gen_event_case(rng)
    s = gen.shot(rng, custom=0.1, wind_max=60.0)
    reach = rng.random() < 0.2
    r = rng.choice([300.0, 600.0, 1000.0, 1500.0, 2400.0])
    if s["mv_fps"] < 900:
        r = min(r, 900.0)
    if reach:
        r = rng.choice([9000.0, 15000.0])
    n = rng.choice([3, 4, 5, 8, 10, 12])
    step = r / n
    base = {"range_ft": r, "step_ft": step, "extra": False, "time_step": 0.0}
    k = rng.choice([2, 3, 4])
    variants = [
        {"kind": "extra", "request": dict(base, extra=True), "expect_superset": True},
        {"kind": "longer", "request": dict(base, range_ft=2 * r if not reach else r * 1.5), "expect_superset": True},
        {"kind": "coarser", "request": dict(base, step_ft=step * k), "expect_superset": False},
        {"kind": "finer", "request": dict(base, step_ft=step / k), "expect_superset": True},
        {"kind": "other_step", "request": dict(base, step_ft=step * 2 / 3), "expect_superset": False},
        {"kind": "time_step", "request": dict(base, time_step=rng.choice([0.001, 0.01, 0.05, 0.1]), extra=rng.random() < 0.5),
         "expect_superset": True},
        {"kind": "finer", "request": dict(base, step_ft=step / k, extra=True, range_ft=r * 1.25), "expect_superset": True},
    ]
    # time step and extra data together: the plain request with a time step against the same request with extra data (the rows
    # recorded on time must be the same ones; the additional rows must all be events)
    ts = rng.choice([0.01, 0.03, 0.05, 0.1, 0.25])
    variants.append({"kind": "extra_time_step", "base_request": dict(base, time_step=ts), "request": dict(base, time_step=ts, extra=True),
                     "expect_superset": True})
    # a recording step below the maximum integration step (0.25 <= s < 0.5 ft: every multiple still gets a row)
    sub = step / max(1, round(step / 0.3))
    if 0.26 <= sub < 0.5 and not reach:
        variants.append({"kind": "sub_step", "request": dict(base, step_ft=sub, range_ft=min(r, 4 * step)), "expect_superset": False})
    for v in variants:
        v["same_calculator"] = rng.random() < 0.8
    rng.shuffle(variants)
    case = {"shot": s, "base": base, "variants": variants, "zero_first_ft": rng.choice([None, None, 300.0, 900.0])}
    if rng.random() < 0.3:
        case["config"] = {"max_calc_step_size_feet": rng.choice([0.25, 1.0]),
                          "cMinimumVelocity": rng.choice([50.0, 600.0])}
    return case


def run(ctx):
    total = 200 if ctx.tier == "quick" else 8000
    for _ in range(ctx.share(total)):
        if not ctx.time_left():
            break
        check_case(ctx, gen_case(ctx.rng))


def replay(ctx, case):
    check_case(ctx, case)
