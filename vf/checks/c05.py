"""C05 - each row's derived columns are the documented functions of its state.

Monitor shape: contract (M-ROW, icontract postconditions) on the real create_trajectory_row - so interpolated, event,
terminal and 'second point' rows are all covered with their state in hand - plus an API-level recomputation with the
Shot in hand (local speed of sound, Litz/Miller spin drift, twist-0 twin run)."""
import math

import py_ballisticcalc as pb
from py_ballisticcalc import (Angular, Calculator, Distance, Energy, Pressure, Temperature, Velocity, Weight)

from vf import build, gen, monitors

ID = "C05"
RULE = ("random shots (all tables, look +-45 deg, cant, twist right/left/none, dimensions present/absent, atmospheres incl. "
        "altitude stations and vacuum, winds) fired plain / with extra data / with a time step / into a limit (RangeError "
        "rows); every row created is checked by the contract; a case = (shot, request); non-trivial when the look angle "
        "is non-zero or the twist is non-zero with dimensions present")
MUST_OBSERVE = ["sight_lines_a_hair_off_level", "rows_behind_the_muzzle", "requests_with_step_beyond_range", "contract_evaluations", "rows_contract_checked", "rows_api_checked", "rows_x0", "rows_event",
                "rows_terminal_rangeerror", "shots_twist_right", "shots_twist_left", "shots_twist_none",
                "shots_no_dimensions", "shots_inclined", "spin_drift_rows_nonzero", "twin_runs", "mach_local_checks", "shots_powder_sensitivity_on"]
ASSUMPTIONS = ["energy accepted between w v^2/450400 (documented constant) and the exact w v^2/(2*7000*32.17405)",
               "spin-drift clause not applied under Vacuum (its atmospheric correction 29.92/P is undefined at P = 0)",
               "Mach vs local speed of sound: 5e-6 (terminal rows reuse the previous step's speed of sound) plus the 30-ft "
               "seam jump 1.3e-4 when the row is within one step of the seam"]
REL = 1e-12


def budget(tier):
    return {"shards": 14, "deadline_s": 60 if tier == "quick" else 900}


def near(a, b, scale=None, rel=REL):
    return abs(a - b) <= rel * max(abs(a), abs(b), scale or 0.0) + 1e-300


def conditions():
    def c_mach(a, r):
        want = a["velocity"] / a["mach"]
        return None if near(r.mach, want) else f"mach {r.mach!r} != speed/c {want!r}"

    def c_energy(a, r):
        lo = a["weight"] * a["velocity"] ** 2 / (2 * 7000 * 32.17405)
        hi = a["weight"] * a["velocity"] ** 2 / 450400
        got = r.energy >> Energy.FootPound
        return None if min(lo, hi) * (1 - 1e-9) <= got <= max(lo, hi) * (1 + 1e-9) else \
            f"energy {got!r} ft-lb outside [{min(lo, hi)!r}, {max(lo, hi)!r}]"

    def c_ogw(a, r):
        want = a["weight"] ** 2 * a["velocity"] ** 3 * 1.5e-12
        got = r.ogw >> Weight.Pound
        return None if near(got, want, rel=1e-9) else f"ogw {got!r} lb != w^2 v^3 1.5e-12 = {want!r}"

    def c_target_drop(a, r):
        x, y, _ = a["range_vector"]
        la = a["look_angle"]
        want = (y - x * math.tan(la)) * math.cos(la)
        got = r.target_drop >> Distance.Foot
        return None if near(got, want, scale=abs(y) + abs(x * math.tan(la)), rel=1e-11) else \
            f"target_drop {got!r} != (y - x tan L) cos L = {want!r}"

    def c_look_distance(a, r):
        x = a["range_vector"][0]
        want = x / math.cos(a["look_angle"])
        got = r.look_distance >> Distance.Foot
        return None if near(got, want, rel=1e-11) else f"look_distance {got!r} != x / cos L = {want!r}"

    def c_drop_adj(a, r):
        x, y, _ = a["range_vector"]
        got = r.drop_adj >> Angular.Radian
        if x == 0:
            return None if got == 0 else f"drop_adj {got!r} at the muzzle (x = 0), expected exactly 0"
        want = math.atan(y / x) - a["look_angle"]
        return None if abs(got - want) <= 1e-12 * (abs(a["look_angle"]) + abs(math.atan(y / x)) + 1e-3) else \
            f"drop_adj {got!r} != atan(y/x) - L = {want!r}"

    def c_windage_adj(a, r):
        x, _, z = a["range_vector"]
        got = r.windage_adj >> Angular.Radian
        if x == 0:
            return None if got == 0 else f"windage_adj {got!r} at the muzzle (x = 0), expected exactly 0"
        want = math.atan((z + a["spin_drift"]) / x)
        return None if abs(got - want) <= 1e-12 * (abs(want) + 1e-3) else f"windage_adj {got!r} != atan(windage/x) = {want!r}"

    def c_angle(a, r):
        vx, vy, _ = a["velocity_vector"]
        want = math.atan2(vy, vx)
        got = r.angle >> Angular.Radian
        return None if abs(got - want) <= 1e-12 * (abs(want) + 1e-3) else f"angle {got!r} != atan2(vy, vx) = {want!r}"

    def c_windage(a, r):
        z = a["range_vector"][2]
        want = z + a["spin_drift"]
        got = r.windage >> Distance.Foot
        return None if near(got, want, scale=abs(z) + abs(a["spin_drift"]), rel=1e-11) else \
            f"windage {got!r} != z + spin drift = {want!r}"

    def c_roundtrip(a, r):
        x, y, _ = a["range_vector"]
        bad = []
        if not near(r.distance >> Distance.Foot, x, rel=1e-12):
            bad.append(f"distance {r.distance >> Distance.Foot!r} != {x!r}")
        if not near(r.height >> Distance.Foot, y, rel=1e-12):
            bad.append(f"height {r.height >> Distance.Foot!r} != {y!r}")
        if not near(r.velocity >> Velocity.FPS, a["velocity"], rel=1e-12):
            bad.append(f"velocity {r.velocity >> Velocity.FPS!r} != {a['velocity']!r}")
        if r.time != a["time"]:
            bad.append(f"time {r.time!r} != {a['time']!r}")
        if int(r.flag) != int(a["flag"]):
            bad.append(f"flag {r.flag} != {a['flag']}")
        vx, vy, vz = a["velocity_vector"]
        if not near(a["velocity"], math.sqrt(vx * vx + vy * vy + vz * vz), rel=1e-12):
            bad.append(f"speed {a['velocity']!r} is not the magnitude of the velocity vector {math.sqrt(vx * vx + vy * vy + vz * vz)!r}")
        return "; ".join(bad) or None

    return [("mach", c_mach), ("energy", c_energy), ("ogw", c_ogw), ("target_drop", c_target_drop),
            ("look_distance", c_look_distance), ("drop_adj", c_drop_adj), ("windage_adj", c_windage_adj),
            ("angle", c_angle), ("windage", c_windage), ("roundtrip", c_roundtrip)]


def miller_sg(spec, mv_fps, atmo):
    tw, d, ln, w = spec.get("twist_in", 0.0), spec.get("diameter_in") or 0.0, spec.get("length_in") or 0.0, spec.get("weight_gr") or 0.0
    if not tw or not d or not ln:
        return 0.0
    t_cal, l_cal = abs(tw) / d, ln / d
    sg = 30.0 * w / (t_cal ** 2 * d ** 3 * l_cal * (1 + l_cal ** 2))
    fv = (mv_fps / 2800.0) ** (1.0 / 3.0)
    t_f = atmo.temperature >> Temperature.Fahrenheit
    p_inhg = atmo.pressure >> Pressure.InHg
    return sg * fv * ((t_f + 460.0) / (59.0 + 460.0)) * (29.92 / p_inhg)


def check_case(ctx, case):
    monitors.reset_all()
    spec = case["shot"]
    if spec.get("_tiny_look"):
        ctx.count("sight_lines_a_hair_off_level")
    shot = build.shot(spec)
    calc = build.calculator(case.get("config"))
    req = case["request"]
    vac = spec["atmo"]["kind"] == "vacuum"
    mv = shot.ammo.get_velocity_for_temp(shot.atmo.powder_temp) >> Velocity.FPS
    sg = miller_sg(spec, mv, shot.atmo) if not vac else None
    conds = conditions()
    if sg is not None:
        conds.append(("spin_drift", spin_condition(spec, sg)))   # the value handed to every row vs Litz/Miller
    look_rad = math.radians(spec.get("look_deg", 0.0))

    def c_behind(a, _r):
        if a["range_vector"].x < 0:
            ctx.count("rows_behind_the_muzzle")
        return None
    conds.append(("behind", c_behind))

    def c_look(a, _r):      # the look angle every row is built with is the shot's (the geometry conditions above take it from here)
        return None if abs(a["look_angle"] - look_rad) <= 1e-12 else f"row built with look angle {a['look_angle']!r} rad, the shot's is {look_rad!r}"
    conds.append(("look_angle", c_look))
    if req["step_ft"] > req["range_ft"]:
        ctx.count("requests_with_step_beyond_range")
    mon = monitors.RowContracts(conds)
    with monitors.quiet(), mon:
        try:
            hit = calc.fire(shot, Distance.Foot(req["range_ft"]), Distance.Foot(req["step_ft"]), req["extra"], req["time_step"])
            rows, raised = list(hit), False
        except pb.RangeError as err:
            rows, raised = list(err.incomplete_trajectory), True
    ctx.note("contracts_backend", mon.backend)
    ctx.count("contract_evaluations", mon.evaluations)
    ctx.count("rows_contract_checked", mon.rows)
    for flag, n in mon.rows_by_flag.items():
        ctx.count(f"rows_flag_{flag}", n)
        if flag & 7:
            ctx.count("rows_event", n)
    if mon.rows < len(rows):
        ctx.violation("row-bypassed-contract", f"{len(rows)} rows returned but only {mon.rows} went through create_trajectory_row", case)
    for name, detail, args in mon.broken[:5]:
        ctx.violation("column." + name, detail, case, row_args=args)
    for name, _, _ in mon.broken[5:]:
        ctx.violation_counts["column." + name] += 1
    if raised:
        ctx.count("rows_terminal_rangeerror")

    # ---- API level, with the Shot in hand
    tw = spec.get("twist_in", 0.0)
    dims = bool(spec.get("diameter_in")) and bool(spec.get("length_in"))
    if spec.get("powder") and spec["powder"]["use"]:
        ctx.count("shots_powder_sensitivity_on")
        if rows and abs((rows[0].velocity >> Velocity.FPS) - mv) > 1e-9 * mv:
            ctx.violation("launch-speed", f"first row speed {rows[0].velocity >> Velocity.FPS!r} != velocity for the powder temperature {mv!r}", case)
    ctx.count("shots_twist_right" if tw > 0 else "shots_twist_left" if tw < 0 else "shots_twist_none")
    if not dims:
        ctx.count("shots_no_dimensions")
    look = spec.get("look_deg", 0.0)
    if look:
        ctx.count("shots_inclined")
    alt0 = shot.atmo.altitude >> Distance.Foot
    step_ft = calc._calc.get_calc_step()  # pylint: disable=protected-access
    twin_rows = None
    if tw and dims and not vac and case.get("twin"):
        twin_spec = dict(spec, twist_in=0.0)
        with monitors.quiet():
            try:
                twin_rows = list(build.calculator(case.get("config")).fire(
                    build.shot(twin_spec), Distance.Foot(req["range_ft"]), Distance.Foot(req["step_ft"]), req["extra"], req["time_step"]))
            except pb.RangeError as err:
                twin_rows = list(err.incomplete_trajectory)
        ctx.count("twin_runs")
        if len(twin_rows) != len(rows):
            ctx.violation("twin.row-count", f"twist-0 twin has {len(twin_rows)} rows, shot has {len(rows)}", case)
            twin_rows = None
    for i, r in enumerate(rows):
        ctx.count("rows_api_checked")
        h = r.height >> Distance.Foot
        x = r.distance >> Distance.Foot
        if x == 0:
            ctx.count("rows_x0")
        v = r.velocity >> Velocity.FPS
        with monitors.quiet():
            _, c = shot.atmo.get_density_factor_and_mach_for_altitude(alt0 + h)
        tol = 5e-6 + (1.3e-4 if abs(abs(h) - 30.0) <= 2 * step_ft + 1e-9 else 0.0)
        ctx.count("mach_local_checks")
        if v > 0 and not abs(r.mach * c - v) <= tol * v:
            ctx.violation("mach.local-speed-of-sound", f"row {i}: mach {r.mach!r} x local speed of sound {c!r} fps != speed {v!r} fps "
                                                       f"(rel {abs(r.mach * c - v) / v:.2e})", case, row=i)
        if sg is not None:
            if tw and dims and sg != 0:
                want = math.copysign(1.0, tw) * 1.25 * (sg + 1.2) * r.time ** 1.83 / 12.0
            else:
                want = 0.0
            if want != 0:
                ctx.count("spin_drift_rows_nonzero")
            if twin_rows is not None:
                got = (r.windage >> Distance.Foot) - (twin_rows[i].windage >> Distance.Foot)
                scale = abs(r.windage >> Distance.Foot) + abs(want) + 1e-6
                if not abs(got - want) <= 1e-9 * scale + 1e-12:
                    ctx.violation("spin-drift.twin", f"row {i} (t={r.time:.4f}s): windage - windage(twist 0) = {got!r} ft, "
                                                     f"Litz/Miller gives {want!r} ft (Sg {sg:.4f})", case, row=i)
    ctx.case(case, nontrivial=bool(look) or bool(tw and dims))
    monitors.reset_all()


def spin_condition(spec, sg):
    tw = spec.get("twist_in", 0.0)
    dims = bool(spec.get("diameter_in")) and bool(spec.get("length_in"))

    def c_spin(a, _r):
        t = a["time"]
        want = math.copysign(1.0, tw) * 1.25 * (sg + 1.2) * t ** 1.83 / 12.0 if (tw and dims and sg) else 0.0
        got = a["spin_drift"]
        return None if abs(got - want) <= 1e-9 * abs(want) + 1e-15 else \
            f"spin drift {got!r} ft at t={t!r}s, Litz/Miller (Sg {sg!r}) gives {want!r} ft"
    return c_spin


def gen_case(rng):
    s = gen.shot(rng, vacuum_ok=True, custom=0.1)
    if rng.random() < 0.5 and s.get("diameter_in"):
        s["twist_in"] = rng.choice([1, -1]) * round(rng.uniform(6, 14), 1)
    if rng.random() < 0.3:
        s["powder"] = {"temp_c": round(rng.uniform(-10, 30), 1), "modifier": round(rng.uniform(-0.04, 0.04), 4), "use": rng.random() < 0.8}
        if s["atmo"]["kind"] == "station" and rng.random() < 0.5:
            s["atmo"]["powder_t_c"] = round(rng.uniform(-30, 45), 1)
    if rng.random() < 0.1:
        # a sight line a hair off level: a tenth of a minute of angle, a few hundredths of a mil - an angle like any other
        s["look_deg"] = rng.choice([-1, 1]) * rng.choice([0.1 / 60, 0.002, 0.04 * 360 / 6400, 5.7e-5, 1e-4])
        s["_tiny_look"] = True
    kind = rng.choice(["plain", "extra", "extra", "time", "limit"])
    req = {"range_ft": rng.choice([300.0, 900.0, 1500.0, 3000.0]), "step_ft": rng.choice([30.0, 75.0, 100.0, 300.0]),
           "extra": kind in ("extra", "limit"), "time_step": rng.choice([0.01, 0.05]) if kind == "time" else 0.0}
    if kind in ("plain", "extra") and rng.random() < 0.15:
        # a step beyond the range: the muzzle row plus the row the solver adds so that there are at least two
        req["range_ft"] = rng.choice([100.0, 300.0, 450.0])
        req["step_ft"] = req["range_ft"] * rng.choice([1.5, 2.0, 4.0])
    if rng.random() < 0.04:
        # blown back behind the muzzle: a near-vertical launch into a strong head wind; rows recorded on time (and the terminal row of
        # the range error) have a negative down-range distance - their adjustments are still atan(offset / distance)
        kind = "time"
        s["look_deg"], s["zero_deg"], s["cant_deg"] = 0.0, 0.0, 0.0
        s["rel_deg"] = round(rng.uniform(88.5, 89.9), 2)
        s["mv_fps"] = round(rng.uniform(600, 1200), 0)
        s["winds"] = [[round(rng.uniform(40, 110), 1), 180.0, None]]
        s.pop("_restate", None)
        req = {"range_ft": 600.0, "step_ft": 60.0, "extra": rng.random() < 0.5, "time_step": 0.5}
    case = {"shot": s, "request": req, "twin": rng.random() < 0.5}
    if kind == "limit":
        case["config"] = {"cMinimumVelocity": rng.choice([800.0, 1500.0]), "cMaximumDrop": rng.choice([-3.0, -30.0, -15000.0])}
        req["range_ft"] = 6000.0
    return case


def run(ctx):
    total = 1800 if ctx.tier == "quick" else 40000
    for _ in range(ctx.share(total)):
        if not ctx.time_left():
            break
        check_case(ctx, gen_case(ctx.rng))


def replay(ctx, case):
    check_case(ctx, case)
