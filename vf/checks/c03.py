"""C03 - range card has exactly one row at every requested distance, muzzle to range.

Monitor shape: row-grid checker on every successful plain fire(); the arithmetic grid k*step and the muzzle state come
from the inputs, the per-step advance (for the 'one integration step beyond' allowance and the time-step clause) from
the M-STEP trace of that same fire."""
import math

import py_ballisticcalc as pb
from py_ballisticcalc import Distance, PreferredUnits, Unit, Velocity

from vf import build, gen, monitors
from vf import refs_si as si

ID = "C03"
RULE = ("random shots with the decisive wind classes (tail 20-90 ft/s on slow projectiles, head, cross, none), ranges 3 ft - "
        "3 miles, steps that do / do not divide the range, step = range, step = maximum integration step, given in any "
        "distance unit or as bare floats under a random preferred distance unit, no step (default), time steps; only fires "
        "that return normally and end moving forward are judged; non-trivial when a wind with a down-range component is "
        "present or the step does not divide the range")
MUST_OBSERVE = ["calculators_with_global_step", "fires_judged", "wind_tail", "wind_head", "wind_cross", "wind_none", "step_not_dividing", "step_bare_float",
                "default_step_fires", "time_step_fires", "last_step_overshot_min_step", "rows_checked", "muzzle_rows_checked",
                "canted_muzzle_rows"]
ASSUMPTIONS = ["requested range/step in feet are the library's own reading of the arguments (conversion accuracy is C06)",
               "row distance tolerance 1e-9 relative (k accumulated additions plus one interpolation)"]
DIST = si.DIMENSIONS["Distance"]


def budget(tier):
    return {"shards": 14, "deadline_s": 60 if tier == "quick" else 1200}


def dist_arg(d):
    """{'ft':, 'unit':, 'bare':} -> library argument (sets the preferred distance unit for bare numbers)."""
    val = si.from_base("Distance", d["unit"], d["ft"] * 0.3048)
    if d["bare"]:
        PreferredUnits.distance = Unit[d["unit"]]
        return val
    return Unit[d["unit"]](val)


def check_case(ctx, case):
    monitors.reset_all()
    spec = case["shot"]
    shot = build.shot(spec)
    if case.get("config") and case.get("step_via_global"):
        # the maximum step comes from the process-wide setting in force when the calculator is created, not from its own dict
        pb.set_global_max_calc_step_size(Distance.Foot(case["config"]["max_calc_step_size_feet"]))
        calc = build.calculator(None)
        ctx.count("calculators_with_global_step")
    else:
        calc = build.calculator(case.get("config"))
    max_step = (case.get("config") or {}).get("max_calc_step_size_feet", 0.5)
    rng_arg = dist_arg(case["range"])
    r_ft = PreferredUnits.distance(rng_arg) >> Distance.Foot
    kw = {}
    if case.get("step") is not None:
        st_arg = dist_arg(case["step"])
        s_ft = PreferredUnits.distance(st_arg) >> Distance.Foot
        kw["trajectory_step"] = st_arg
    else:
        s_ft = r_ft / 10.0
    if case.get("time_step"):
        kw["time_step"] = case["time_step"]
    trace = monitors.StepTrace()
    with monitors.quiet(), trace:
        try:
            hit = calc.fire(shot, rng_arg, **kw)
        except pb.RangeError:
            ctx.count("fires_not_reaching_range")
            ctx.case(case, nontrivial=False, sample=False)
            monitors.reset_all()
            return
    rows = list(hit)
    pts = trace.points
    if not pts:
        ctx.skip("step trace empty")
        return
    if not (rows[-1].angle >> pb.Angular.Radian) < math.pi / 2 - 1e-9 or not abs(rows[-1].angle >> pb.Angular.Radian) < math.pi / 2:
        ctx.count("fires_not_moving_forward")
        ctx.case(case, nontrivial=False, sample=False)
        return
    ctx.count("fires_judged")
    dx_max = max((b[1] - a[1] for a, b in zip(pts, pts[1:])), default=0.0)
    dt_max = max((b[0] - a[0] for a, b in zip(pts, pts[1:])), default=0.0)
    calc_step = max_step / 2.0
    min_step = min(calc_step, s_ft)
    if dx_max > min_step * (1 + 1e-9):
        ctx.count("last_step_overshot_min_step" if pts[-1][1] > r_ft + min_step else "some_step_longer_than_min_step")
    # wind classification (down-range component of any segment that starts inside the range)
    cls = "none"
    prev_until = 0.0
    for speed, direction, until in sorted(spec.get("winds") or [], key=lambda w: 1e8 if w[2] is None else w[2]):
        if speed > 0 and prev_until <= r_ft:
            c = math.cos(math.radians(direction))
            cls = "tail" if c > 0.2 else "head" if c < -0.2 else ("cross" if cls == "none" else cls)
        prev_until = 1e8 if until is None else until
    ctx.count("wind_" + cls)
    divides = abs(r_ft / s_ft - round(r_ft / s_ft)) < 1e-9
    if not divides:
        ctx.count("step_not_dividing")
    if case.get("step") is not None and case["step"]["bare"]:
        ctx.count("step_bare_float")
    xs = [r.distance >> Distance.Foot for r in rows]
    ts = [r.time for r in rows]

    def bad(key, what, **kw_):
        ctx.violation(key, what, case, rows=len(rows), range_ft=r_ft, step_ft=s_ft, **kw_)

    if case.get("time_step"):
        ctx.count("time_step_fires")
        worst = max((b - a for a, b in zip(ts, ts[1:])), default=0.0)
        ctx.max("time_gap_over_allowance", worst / (case["time_step"] + 2 * dt_max))
        if worst > case["time_step"] + 2 * dt_max + 1e-12:
            bad("time-gap", f"two successive rows are {worst:.6f} s apart, time step {case['time_step']} s + two integration "
                            f"steps ({dt_max:.6f} s each) allows {case['time_step'] + 2 * dt_max:.6f} s")
        # the range grid must still be present among the rows
        grid_rows = xs
    else:
        grid_rows = xs
    if case.get("step") is None and not case.get("time_step") and s_ft >= max_step * (1 - 1e-12):
        ctx.count("default_step_fires")
        if len(rows) != 11:
            bad("default-step.rows", f"no step given: {len(rows)} rows instead of 11")
    n = int(math.floor(r_ft / s_ft * (1 + 1e-12) + 1e-9))
    if s_ft >= max_step * (1 - 1e-12):
        # every multiple present exactly once
        tol = lambda k: 1e-9 * max(1.0, k * s_ft)  # noqa: E731
        j = 0
        for k in range(n + 1):
            want = k * s_ft
            hits = 0
            while j < len(grid_rows) and grid_rows[j] <= want + tol(k):
                if abs(grid_rows[j] - want) <= tol(k):
                    hits += 1
                elif not case.get("time_step"):
                    bad("row-off-grid", f"row at {grid_rows[j]!r} ft is not a multiple of the step {s_ft!r} ft", row=j)
                    return
                j += 1
            ctx.count("rows_checked")
            if hits != 1 and not (case.get("time_step") and hits >= 1):    # a time-triggered row may fall on a multiple by chance
                bad("missing-row" if hits == 0 else "duplicate-row",
                    f"{hits} rows at multiple {k} of the step ({want!r} ft); range {r_ft!r} ft, last row at {xs[-1]!r} ft, "
                    f"final integration point at {pts[-1][1]!r} ft", multiple=k)
                return
        extra = grid_rows[j:]
        if not case.get("time_step"):
            if len(extra) > 1 or (extra and not (abs(extra[0] - (n + 1) * s_ft) <= tol(n + 1)
                                                 and (n + 1) * s_ft <= r_ft + min_step + dx_max + 1e-9)):
                bad("extra-row", f"rows beyond the range: {extra[:3]} (range {r_ft} ft, step {s_ft} ft, one integration step "
                                 f"{dx_max:.4f} ft)")
            if extra:
                ctx.count("fires_with_one_row_beyond_range")
    for a, b in zip(xs, xs[1:]):
        if not b > a:
            if case.get("time_step") and b == a:
                continue        # time-triggered rows of a (near-)vertical stretch may share a distance
            bad("distance-not-increasing", f"row distances {a!r} -> {b!r}")
            break
    for a, b in zip(ts, ts[1:]):
        if not b > a:
            bad("time-not-increasing", f"row times {a!r} -> {b!r}")
            break
    # first row = muzzle state
    r0 = rows[0]
    cant = math.radians(spec.get("cant_deg", 0.0))
    sh = spec.get("sight_height_in", 0.0) / 12.0
    mv = spec["mv_fps"]
    ctx.count("muzzle_rows_checked")
    if cant:
        ctx.count("canted_muzzle_rows")
    want = {"time": (r0.time, 0.0, 0.0), "distance": (r0.distance >> Distance.Foot, 0.0, 0.0),
            "speed": (r0.velocity >> Velocity.FPS, mv, 1e-9 * mv),
            "height": (r0.height >> Distance.Foot, -math.cos(cant) * sh, 1e-12),
            "lateral": (r0.windage >> Distance.Foot, -math.sin(cant) * sh, 1e-12)}
    for name, (got, exp, tol_) in want.items():
        if not abs(got - exp) <= tol_:
            bad("muzzle-row." + name, f"first row {name} = {got!r}, expected {exp!r}")
    ctx.case(case, nontrivial=(cls in ("tail", "head")) or not divides)
    monitors.reset_all()


def gen_case(rng):
    k = rng.random()
    if k < 0.45:   # decisive class: strong tail wind on a slow projectile, short range => many end points per CPU second
        s = gen.shot(rng, custom=0.05, mv_lo=300.0, mv_hi=1200.0, wind_n=0, look=False, cant=rng.random() < 0.3)
        s["rel_deg"] = rng.choice([0.0, round(rng.uniform(0, 3), 2)])
        s["winds"] = [[round(rng.uniform(20, 90), 2), rng.choice([0.0, 0.0, round(rng.uniform(-40, 40) % 360, 1)]), None]]
        r_ft = rng.choice([round(rng.uniform(3, 60), 2), round(rng.uniform(60, 400), 1), float(rng.randint(10, 300))])
        if rng.random() < 0.45:
            # the tail wind only sets in down range: calm / head / cross wind first
            first = rng.choice([[0.0, 0.0], [round(rng.uniform(5, 40), 1), 180.0], [round(rng.uniform(5, 40), 1), 270.0],
                                [round(rng.uniform(5, 40), 1), round(rng.uniform(100, 260), 1)]])
            s["winds"] = [[first[0], first[1], round(r_ft * rng.uniform(0.1, 0.7), 2)], s["winds"][0]]
    else:
        s = gen.shot(rng, custom=0.1, wind_max=90.0)
        s["rel_deg"] = min(s["rel_deg"], 20.0)
        r_ft = rng.choice([round(rng.uniform(3, 300), 2), round(rng.uniform(300, 3000), 1), round(rng.uniform(3000, 16000), 0)])
        if s["mv_fps"] < 1200:
            r_ft = min(r_ft, 2500.0)
    case = {"shot": s, "range": {"ft": r_ft, "unit": rng.choice(DIST), "bare": rng.random() < 0.25}}
    mode = rng.random()
    if mode < 0.12:
        case["step"] = None
    else:
        kind = rng.random()
        if kind < 0.3:
            st = r_ft / rng.choice([1, 2, 3, 4, 5, 7, 10, 20, 50])
        elif kind < 0.4:
            st = 0.5
        else:
            st = rng.choice([round(rng.uniform(0.5, max(0.6, r_ft / 3)), 3), round(rng.uniform(0.5, max(0.6, r_ft)), 2)])
        st = max(0.5, st)
        if r_ft / st > 4000:
            st = r_ft / 4000
        case["step"] = {"ft": st, "unit": rng.choice(DIST), "bare": rng.random() < 0.25}
        if case["step"]["bare"] and case["range"]["bare"]:
            case["step"]["unit"] = case["range"]["unit"]
    if rng.random() < 0.12:
        case["time_step"] = rng.choice([0.001, 0.01, 0.05, round(rng.uniform(0.002, 0.2), 4)])
    if rng.random() < 0.1:
        case["config"] = {"max_calc_step_size_feet": rng.choice([0.25, 1.0, 2.0, 0.1])}
        case["step_via_global"] = rng.random() < 0.4
        if case["config"]["max_calc_step_size_feet"] == 0.1 and case.get("step"):
            # a fine solver step and a recording step just above it, on a short range (the rows are counted all the same)
            case["step"]["ft"] = rng.choice([0.1, 0.2, 0.3])
            case["range"]["ft"] = min(case["range"]["ft"], 30.0)
        if case.get("step") and case["step"]["ft"] < case["config"]["max_calc_step_size_feet"]:
            case["step"]["ft"] = case["config"]["max_calc_step_size_feet"]
    return case


def run(ctx):
    total = 4200 if ctx.tier == "quick" else 150000
    for _ in range(ctx.share(total)):
        if not ctx.time_left():
            break
        check_case(ctx, gen_case(ctx.rng))


def replay(ctx, case):
    check_case(ctx, case)
