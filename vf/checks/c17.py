"""C17 - powder temperature sensitivity is linear, anchored and reproduces calibration.

Monitor shape: algebraic checker on the real Ammo/Atmo/Calculator objects; oracle = the linear law of the statement."""
import math

import py_ballisticcalc as pb
from py_ballisticcalc import (Ammo, Atmo, Calculator, Distance, DragModel, PreferredUnits, Shot, Temperature, Unit,
                              Velocity, Weapon)

from vf import monitors
from vf.build import reset_globals

ID = "C17"
RULE = ("random (stated velocity, stated powder temperature, modifier | second measurement) in any velocity / "
        "temperature unit or bare under a random preferred unit; kinds: off, linear law, calibration in all four sign "
        "combinations of (dv, dT) plus degenerate pairs, launch speed of fire() under atmospheres with and without an "
        "explicit powder temperature; non-trivial when sensitivity is on and the query/second temperature differs "
        "from the stated one")
MUST_OBSERVE = ["off_queries", "linear_queries", "calibrations", "calib_dv-_dT-", "calib_dv-_dT+", "calib_dv+_dT-",
                "calib_dv+_dT+", "degenerate_rejected", "launches", "launch_powder_t_given", "launch_powder_t_default", "restated", "zeroing_launches", "bare_ints_passed", "restated_in_one_session"]
ASSUMPTIONS = ["temperatures converted to Celsius and velocities to m/s with exact affine/linear maps (C06 covers the library's)"]
TU = ["Celsius", "Fahrenheit", "Kelvin", "Rankin"]
VU = {"MPS": 1.0, "FPS": 0.3048, "KMH": 1 / 3.6, "MPH": 0.44704, "KT": 1852 / 3600}
REL = 1e-10


def budget(tier):
    return {"shards": 14, "deadline_s": 45 if tier == "quick" else 600}


def c_to(unit, c):
    return {"Celsius": c, "Kelvin": c + 273.15, "Fahrenheit": c * 9 / 5 + 32, "Rankin": (c + 273.15) * 9 / 5}[unit]


def temp_arg(rng, t_c, case, key):
    """Temperature t_c [C] as an explicit quantity in a random unit, or bare in the preferred unit."""
    unit = rng.choice(TU)
    bare = rng.random() < 0.3
    case[key] = {"t_c": t_c, "unit": unit, "bare": bare}
    return _temp(case[key])


INTS_PASSED = [0]


def _int_if_whole(x):
    """A whole bare number is handed over as a Python int (callers write 15, not 15.0)."""
    if float(x).is_integer() and abs(x) < 1e9:
        INTS_PASSED[0] += 1
        return int(x)
    return x


def _temp(d):
    if d["bare"]:
        PreferredUnits.temperature = Unit[d["unit"]]
        return _int_if_whole(c_to(d["unit"], d["t_c"]))
    return Unit[d["unit"]](c_to(d["unit"], d["t_c"]))


def _vel(d):
    if d["bare"]:
        PreferredUnits.velocity = Unit[d["unit"]]
        return _int_if_whole(d["v_mps"] / VU[d["unit"]])
    return Unit[d["unit"]](d["v_mps"] / VU[d["unit"]])


def lib_c(d):
    """The library's own Celsius reading of a temperature argument."""
    return Unit[d["unit"]](c_to(d["unit"], d["t_c"])) >> Temperature.Celsius


def lib_mps(d):
    return Unit[d["unit"]](d["v_mps"] / VU[d["unit"]]) >> Velocity.MPS


def close(a, b, scale):
    return abs(a - b) <= REL * max(abs(scale), 1e-300)


def mk_ammo(case):
    dm = DragModel(0.3, pb.TableG7)
    v0 = _vel(case["v0"])
    t0 = _temp(case["t0"])
    return Ammo(dm, v0, t0, case.get("modifier", 0.0), case.get("use", True))


def check_case(ctx, case):
    try:
        _check_case(ctx, case)
    finally:
        if INTS_PASSED[0]:
            ctx.count("bare_ints_passed", INTS_PASSED[0])
            INTS_PASSED[0] = 0


def _check_case(ctx, case):
    reset_globals()
    kind = case["kind"]
    ammo = mk_ammo(case)
    stated = ammo.mv >> Velocity.MPS
    # the law is checked in the library's own reading of the inputs (m/s, Celsius); that this reading agrees with the
    # SI definitions is C06's business and only sanity-checked here at C06's tolerance
    if not abs(stated - case["v0"]["v_mps"]) <= 1e-6 * case["v0"]["v_mps"]:
        ctx.violation("stated-velocity", f"Ammo.mv is {stated!r} m/s, constructed with {case['v0']['v_mps']!r}", case)
    if not abs((ammo.powder_temp >> Temperature.Celsius) - case["t0"]["t_c"]) <= 1e-6 * 500:
        ctx.violation("stated-temperature", f"Ammo.powder_temp is {ammo.powder_temp >> Temperature.Celsius!r} C, "
                                            f"constructed with {case['t0']['t_c']!r}", case)
    v0, t0 = stated, lib_c(case["t0"])
    if kind == "off":
        nt = False
        for tq in case["queries"]:
            got = ammo.get_velocity_for_temp(_temp(tq))
            ctx.count("off_queries")
            if (got >> Velocity.MPS) != stated:
                ctx.violation("off.not-stated", f"sensitivity off, v({tq['t_c']} C) = {got >> Velocity.MPS!r} != mv {stated!r}", case)
        ctx.case(case, nontrivial=nt)
    elif kind == "linear":
        m = case["modifier"]
        for tq in case["queries"]:
            got = ammo.get_velocity_for_temp(_temp(tq)) >> Velocity.MPS
            tq_c = lib_c(tq)
            want = v0 + m * v0 / 15.0 * (tq_c - t0)
            ctx.count("linear_queries")
            scale = max(abs(v0), abs(m * v0 / 15.0) * (abs(tq_c) + abs(t0) + 300))
            if not close(got, want, scale):
                ctx.violation("linear-law", f"v({tq['t_c']} C) = {got!r}, linear law gives {want!r} "
                                            f"(v0 {v0}, T0 {t0}, modifier {m})", case, got=got, want=want)
        got0 = ammo.get_velocity_for_temp(_temp(case["t0"])) >> Velocity.MPS
        if not close(got0, v0, v0):
            ctx.violation("anchor", f"v(T0) = {got0!r} != stated {v0!r}", case)
        ctx.case(case, nontrivial=any(q["t_c"] != case["t0"]["t_c"] for q in case["queries"]) and m != 0)
    elif kind == "calibration":
        v1, t1 = lib_mps(case["v1"]), lib_c(case["t1"])
        degenerate = (case["v1"]["v_mps"] == case["v0"]["v_mps"]) or (case["t1"]["t_c"] == case["t0"]["t_c"])
        try:
            mod = ammo.calc_powder_sens(_vel(case["v1"]), _temp(case["t1"]))
        except ValueError:
            if degenerate:
                ctx.count("degenerate_rejected")
            else:
                ctx.violation("calibration.rejected", f"calibration ({v1} m/s @ {t1} C) rejected with ValueError", case)
            ctx.case(case, nontrivial=False)
            return
        if degenerate:
            # the unit round trip of an equal measurement may differ in the last bit; only exact equality must raise
            ctx.count("degenerate_accepted_after_rounding")
            ctx.case(case, nontrivial=False)
            return
        ctx.count("calibrations")
        ctx.count(f"calib_dv{'+' if v1 > v0 else '-'}_dT{'+' if t1 > t0 else '-'}")
        ammo.use_powder_sensitivity = True
        got = ammo.get_velocity_for_temp(_temp(case["t1"])) >> Velocity.MPS
        scale = max(abs(v0), abs(v1))
        # relative accuracy of a slope from two close measurements is limited by their separation
        amp = max(1.0, (abs(t0) + abs(t1) + 300) / abs(t1 - t0) * 1e-3, abs(v0) / abs(v1 - v0) * 1e-3)
        if not abs(got - v1) <= 1e-9 * scale * amp:
            ctx.violation("calibration.not-reproduced",
                          f"calibrated with ({v1} m/s @ {t1} C) on ({v0} m/s @ {t0} C) but v({t1} C) = {got!r}", case,
                          got=got, want=v1, modifier=mod)
        if ammo.temp_modifier != mod:
            ctx.violation("calibration.not-stored", "returned modifier differs from ammo.temp_modifier", case)
        got0 = ammo.get_velocity_for_temp(_temp(case["t0"])) >> Velocity.MPS
        if not close(got0, v0, v0):
            ctx.violation("anchor", f"after calibration v(T0) = {got0!r} != stated {v0!r}", case)
        ctx.case(case, nontrivial=True)
    elif kind == "restate":
        m = case["modifier"]
        ammo.get_velocity_for_temp(_temp(case["queries"][0]))         # first use of the sensitivity model
        # a session keeps one calculator, one atmosphere and one shot for everything below; otherwise each is made when needed
        session = case.get("session")
        the_atmo = Atmo(Distance.Foot(0), pb.Pressure.hPa(1000), Temperature.Celsius(case["air_c"]))
        the_calc = Calculator()
        the_shot = Shot(Weapon(Distance.Inch(2)), ammo, atmo=the_atmo)
        if session:
            ctx.count("restated_in_one_session")
        if case.get("fire_first"):
            if session:
                the_calc.fire(the_shot, Distance.Foot(30), Distance.Foot(10))
                if case.get("zero_first"):
                    try:
                        the_calc.set_weapon_zero(the_shot, Distance.Foot(150))
                    except (pb.ZeroFindingError, pb.RangeError):
                        pass
            else:
                Calculator().fire(Shot(Weapon(Distance.Inch(2)), ammo), Distance.Foot(30), Distance.Foot(10))
        ammo.mv = _vel(case["v_new"]) if case["v_new"]["bare"] is False else PreferredUnits.velocity(_vel(case["v_new"]))
        ammo.powder_temp = _temp(dict(case["t_new"], bare=False))
        v0n, t0n = ammo.mv >> Velocity.MPS, ammo.powder_temp >> Temperature.Celsius
        ctx.count("restated")
        for tq in case["queries"]:
            got = ammo.get_velocity_for_temp(_temp(tq)) >> Velocity.MPS
            tq_c = lib_c(tq)
            want = v0n + m * v0n / 15.0 * (tq_c - t0n)
            ctx.count("linear_queries")
            if not close(got, want, max(abs(v0n), abs(m * v0n / 15.0) * (abs(tq_c) + abs(t0n) + 300))):
                ctx.violation("restated.linear-law", f"after re-stating the ammunition to {v0n!r} m/s @ {t0n!r} C: v({tq_c} C) = {got!r}, linear law gives {want!r}", case,
                              got=got, want=want)
        got0 = ammo.get_velocity_for_temp(ammo.powder_temp) >> Velocity.MPS
        if not close(got0, v0n, v0n):
            ctx.violation("restated.anchor", f"after re-stating: v(stated powder temperature) = {got0!r} != stated {v0n!r}", case)
        air = Temperature.Celsius(case["air_c"]) >> Temperature.Celsius

        def launch(what, want):
            if session:
                res = the_calc.fire(the_shot, Distance.Foot(30), Distance.Foot(10))
            else:
                res = Calculator().fire(Shot(Weapon(Distance.Inch(2)), ammo, atmo=Atmo(Distance.Foot(0), pb.Pressure.hPa(1000), Temperature.Celsius(case["air_c"]))),
                                        Distance.Foot(30), Distance.Foot(10))
            ctx.count("launches")
            if not close(res[0].velocity >> Velocity.MPS, want, max(abs(v0n), abs(want))):
                ctx.violation("restated.launch-speed", f"{what}: first row speed {res[0].velocity >> Velocity.MPS!r} m/s, expected {want!r}"
                                                       f"{' (same calculator, shot and atmosphere objects as the earlier calls)' if session else ''}", case)

        launch("after re-stating", v0n + m * v0n / 15.0 * (air - t0n))
        if case.get("then"):
            # the session goes on: sensitivity switched off, then calibrated against a second measurement and switched on again
            ammo.use_powder_sensitivity = False
            launch("after switching the sensitivity off", v0n)
            v1, t1 = case["then"]["v1"], case["then"]["t1"]
            m2 = ammo.calc_powder_sens(Velocity.MPS(v1), Temperature.Celsius(t1))
            launch("after calibrating with the sensitivity still off", v0n)
            ammo.use_powder_sensitivity = True
            launch("after calibrating and switching the sensitivity on", v0n + m2 * v0n / 15.0 * (air - t0n))
            gotc = ammo.get_velocity_for_temp(Temperature.Celsius(t1)) >> Velocity.MPS
            if not close(gotc, Velocity.MPS(v1) >> Velocity.MPS, max(abs(v1), abs(v0n))):
                ctx.violation("restated.calibration-not-reproduced", f"after re-stating and calibrating with ({v1} m/s, {t1} C): v({t1} C) = {gotc!r}", case)
        ctx.case(case, nontrivial=True)
    elif kind == "launch":
        m = case["modifier"]
        air_c = case["air_c"]
        kw = {}
        if case.get("powder_t") is not None:
            kw["powder_t"] = _temp(case["powder_t"])
            ctx.count("launch_powder_t_given")
        else:
            ctx.count("launch_powder_t_default")
        atmo = Atmo(Distance.Foot(case["alt_ft"]), pb.Pressure.hPa(case["p_hpa"]), Temperature.Celsius(air_c), 20, **kw)
        pt = atmo.powder_temp >> Temperature.Celsius
        want_pt = lib_c(case["powder_t"]) if case.get("powder_t") is not None else (Temperature.Celsius(air_c) >> Temperature.Celsius)
        if not abs(pt - want_pt) <= 1e-9 * (abs(want_pt) + 300):
            ctx.violation("launch.powder-temp", f"atmo.powder_temp = {pt!r} C, expected {want_pt!r} C", case)
        shot = Shot(Weapon(Distance.Inch(2)), ammo, atmo=atmo)
        res = Calculator().fire(shot, Distance.Foot(30), Distance.Foot(10))
        got = res[0].velocity >> Velocity.MPS
        want = v0 + m * v0 / 15.0 * (want_pt - t0) if case["use"] else v0
        ctx.count("launches")
        if not close(got, want, max(abs(v0), abs(want))):
            ctx.violation("launch.speed", f"first row speed {got!r} m/s, expected v(powder temp {want_pt} C) = {want!r}", case,
                          got=got, want=want)
        # ... and so does every trial trajectory of a zeroing (observed: the speed of each integration's first point)
        trace = monitors.StepTrace()
        if case.get("zero_ft"):
            with trace, monitors.quiet():
                try:
                    Calculator().barrel_elevation_for_target(shot, Distance.Foot(case["zero_ft"]))
                except (pb.ZeroFindingError, pb.RangeError):
                    pass
        starts = [p for p in trace.points if p[0] == 0.0]
        ctx.count("zeroing_launches", len(starts))
        for p in starts:
            got_z = Velocity.FPS(math.sqrt(p[4] ** 2 + p[5] ** 2 + p[6] ** 2)) >> Velocity.MPS
            if not close(got_z, want, max(abs(v0), abs(want))):
                ctx.violation("launch.speed-while-zeroing", f"a trial trajectory of barrel_elevation_for_target starts at {got_z!r} m/s, expected "
                                                            f"v(powder temp {want_pt} C) = {want!r} (stated {v0!r} m/s at {t0!r} C)", case, got=got_z, want=want)
                break
        ctx.case(case, nontrivial=case["use"] and want_pt != t0 and m != 0)
    reset_globals()


def gen_case(rng):
    def vel(lo=150.0, hi=1400.0):
        return {"v_mps": round(rng.uniform(lo, hi), 3), "unit": rng.choice(list(VU)), "bare": rng.random() < 0.3}

    def tmp(lo=-45.0, hi=55.0):
        t = rng.choice([0.0, 15.0, round(rng.uniform(lo, hi), 2), float(rng.randint(int(lo), int(hi)))])
        return {"t_c": t, "unit": rng.choice(TU), "bare": rng.random() < 0.3}

    kind = rng.choice(["off", "linear", "linear", "calibration", "calibration", "calibration", "launch", "launch", "restate"])
    case = {"kind": kind, "v0": vel(), "t0": tmp()}
    # a bare baseline and a bare query share the single preferred unit of their dimension
    if kind == "off":
        case.update(use=False, modifier=round(rng.uniform(-0.05, 0.05), 5), queries=[tmp(-80, 90) for _ in range(4)])
    elif kind == "linear":
        case.update(use=True, modifier=rng.choice([0.0, round(rng.uniform(-0.05, 0.05), 5), round(rng.uniform(0, 2), 4)]),
                    queries=[tmp(-80, 90) for _ in range(4)])
    elif kind == "restate":
        case["v0"] = vel(300, 1000)
        case.update(use=True, modifier=round(rng.uniform(-0.04, 0.04), 5), queries=[tmp(-40, 60) for _ in range(3)],
                    v_new=dict(vel(300, 1000), bare=False), t_new=tmp(-30, 40), fire_first=rng.random() < 0.6,
                    air_c=round(rng.uniform(-20, 40), 1), session=rng.random() < 0.6, zero_first=rng.random() < 0.3)
        if rng.random() < 0.6:
            case["then"] = {"v1": round(case["v_new"]["v_mps"] * rng.choice([0.93, 0.97, 1.04, 1.08]), 2),
                            "t1": round(case["t_new"]["t_c"] + rng.choice([-25.0, -8.0, 12.0, 30.0]), 1)}
    elif kind == "calibration":
        v0 = case["v0"]["v_mps"]
        dv = rng.choice([-1, 1]) * rng.choice([round(rng.uniform(0.5, 5), 3), round(rng.uniform(5, 120), 2)])
        dt = rng.choice([-1, 1]) * round(rng.uniform(2, 60), 2)
        deg = rng.random()
        if deg < 0.06:
            dv = 0.0
        elif deg < 0.12:
            dt = 0.0
        u1 = case["v0"]["unit"] if dv == 0 else rng.choice(list(VU))
        case["v1"] = {"v_mps": round(v0 + dv, 3) if dv else v0, "unit": u1, "bare": False if dv == 0 else rng.random() < 0.3}
        ut = case["t0"]["unit"] if dt == 0 else rng.choice(TU)
        case["t1"] = {"t_c": round(case["t0"]["t_c"] + dt, 2) if dt else case["t0"]["t_c"], "unit": ut,
                      "bare": False if dt == 0 else rng.random() < 0.3}
        if dv == 0:
            case["v0"]["bare"] = False
        if dt == 0:
            case["t0"]["bare"] = False
        case.update(use=rng.random() < 0.5, modifier=0.0)
    else:
        case["v0"] = vel(250, 1000)
        case.update(use=rng.random() < 0.8, modifier=round(rng.uniform(-0.03, 0.03), 5),
                    air_c=round(rng.uniform(-30, 45), 2), alt_ft=round(rng.uniform(0, 6000), 1),
                    p_hpa=round(rng.uniform(700, 1040), 1),
                    powder_t=tmp(-40, 50) if rng.random() < 0.5 else None,
                    zero_ft=rng.choice([150.0, 300.0, 600.0]) if rng.random() < 0.08 else None)
    # only one bare value per dimension may rely on the preferred unit at a time: make bare users share a unit
    for keys in (["t0", "t1", "powder_t"], ["v0", "v1"]):
        bare = [case[k] for k in keys if isinstance(case.get(k), dict) and case[k]["bare"]]
        bare += [q for q in case.get("queries", []) if q["bare"]] if keys[0] == "t0" else []
        for d in bare[1:]:
            d["unit"] = bare[0]["unit"]
    return case


def run(ctx):
    total = 40000 if ctx.tier == "quick" else 1500000
    for _ in range(ctx.share(total)):
        if not ctx.time_left():
            break
        check_case(ctx, gen_case(ctx.rng))


def replay(ctx, case):
    check_case(ctx, case)
