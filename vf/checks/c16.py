"""C16 - danger space is the contiguous stretch of trajectory within the target.

Monitor shape: invariant checker on every DangerSpace returned by the real HitResult.danger_space; oracle = the
row conditions of the statement evaluated on the very trajectory the result refers to."""
import py_ballisticcalc as pb
from py_ballisticcalc import Calculator, Distance, HitResult, PreferredUnits, Unit

from vf import build, gen
from vf import refs_si as si
from vf.build import reset_globals

ID = "C16"
RULE = ("extra-data trajectories of random shots (zeroed flat fire, arcing 5-40 deg, look +-30 deg, sight above/below "
        "bore; record steps 1-100 ft) x queries (range on the rising and the falling branch, inside/at the ends/beyond; "
        "target heights 0.01-60 ft in any distance unit, increasing sequences for the monotonicity clause); a case = "
        "(shot, request); non-trivial when the target row is not the first/last row and at least one other row lies "
        "outside the target")
MUST_OBSERVE = ["ranges_given_as_plain_numbers", "canted_shots", "cases_under_other_preferred_units", "danger_spaces", "target_on_rising_branch", "target_on_falling_branch", "inclined_sight_line",
                "bound_is_interior_row", "bound_is_end_row", "monotonic_pairs", "beyond_rejected", "plain_rejected", "explicit_look_angle_argument", "shot_reaimed_after_fire",
                "same_numbers_after_unit_switch", "plain_number_after_equal_raw_quantity", "edge_hugging_heights"]
ASSUMPTIONS = ["'drop' is the row's drop relative to the sight line (target_drop), as in the reported DangerSpace rows"]
DIST = si.DIMENSIONS["Distance"]


def budget(tier):
    return {"shards": 14, "deadline_s": 60 if tier == "quick" else 900}


def idx_of(rows, row):
    for i, r in enumerate(rows):
        if r is row:
            return i
    return None


def check_space(ctx, hit, case, q_ft, h_ft, h_unit):
    rows = hit.trajectory
    kw = {}
    if case.get("look_arg_deg") is not None:
        kw["look_angle"] = pb.Angular.Degree(case["look_arg_deg"])       # the optional third argument (an annotation for plots)
        ctx.count("explicit_look_angle_argument")
    at_arg = Distance.Foot(q_ft)
    if case.get("bare_at_range") and int(q_ft * 7) % 3 == 0 and q_ft < (rows[-1].distance >> Distance.Foot) * (1 - 1e-9):
        # (not for a request at the very end of the trajectory: the round trip through another unit may land an ulp beyond it)
        # the range as a plain number of the preferred distance unit in force (a documented form of the argument)
        at_arg = Distance.Foot(q_ft) >> PreferredUnits.distance
        ctx.count("ranges_given_as_plain_numbers")
    ds = hit.danger_space(at_arg, Unit[h_unit](si.from_base("Distance", h_unit, h_ft * 0.3048)), **kw)
    ctx.count("danger_spaces")
    c = dict(case, at_range_ft=q_ft, height_ft=h_ft, height_unit=h_unit)
    req = Distance.Foot(q_ft).raw_value
    half = Unit[h_unit](si.from_base("Distance", h_unit, h_ft * 0.3048)).raw_value / 2.0
    ia, ib, ie = idx_of(rows, ds.at_range), idx_of(rows, ds.begin), idx_of(rows, ds.end)
    if None in (ia, ib, ie):
        ctx.violation("rows-not-from-trajectory", "a reported row is not a row of the trajectory", c)
        ctx.case(c, True)
        return None
    want_ia = next((i for i, r in enumerate(rows) if r.distance.raw_value >= req), -1)
    if ia != want_ia:
        ctx.violation("target-row", f"target row index {ia}, first row at/after the request is {want_ia}", c)
    if not (rows[ib].distance.raw_value <= req <= rows[ie].distance.raw_value) or not ib <= ia <= ie:
        ctx.violation("not-bracketing", f"bounds {rows[ib].distance >> Distance.Foot} .. {rows[ie].distance >> Distance.Foot} ft "
                                        f"do not bracket the request {q_ft} ft", c)
    centre = rows[ia].target_drop.raw_value
    for i in range(ib + 1, ie):
        if i == ia:
            continue
        if not abs(rows[i].target_drop.raw_value - centre) < half:
            ctx.violation("row-outside-target-inside-space",
                          f"row {i} at {rows[i].distance >> Distance.Foot:.2f} ft lies between the bounds (rows {ib}..{ie}) but its drop "
                          f"differs from the target row's by {abs(rows[i].target_drop.raw_value - centre) / 12:.4f} ft >= half height {half / 12:.4f} ft",
                          c, row=i, begin=ib, end=ie, target=ia)
            break
    for name, i, edge in (("begin", ib, 0), ("end", ie, len(rows) - 1)):
        diff = abs(rows[i].target_drop.raw_value - centre)
        if i == edge:
            ctx.count("bound_is_end_row")
        elif diff >= half:
            ctx.count("bound_is_interior_row")
        if i != edge and not diff >= half:
            ctx.violation(f"bound-inside-target.{name}", f"{name} bound row {i} is neither the trajectory's end row nor outside the "
                                                         f"target (|d drop| {diff / 12:.4f} ft < {half / 12:.4f} ft)", c)
    if bits_ne(ds.target_height.raw_value, half * 2):
        ctx.violation("target-height-echo", "reported target height differs from the request", c)
    # classification for coverage
    apex = max(range(len(rows)), key=lambda i: rows[i].target_drop.raw_value)
    ctx.count("target_on_rising_branch" if ia < apex else "target_on_falling_branch")
    outside = any(abs(r.target_drop.raw_value - centre) >= half for r in rows)
    ctx.case(c, nontrivial=(0 < ia < len(rows) - 1) and outside, sample=(ia < apex))
    return ib, ie


def judge(rows, ds, req_raw, height_raw):
    """The statement's conditions for one DangerSpace, for a request that means req_raw / height_raw (inches): list of keys violated."""
    bad = []
    half = height_raw / 2.0
    ia, ib, ie = idx_of(rows, ds.at_range), idx_of(rows, ds.begin), idx_of(rows, ds.end)
    if None in (ia, ib, ie):
        return ["rows-not-from-trajectory"]
    if ia != next((i for i, r in enumerate(rows) if r.distance.raw_value >= req_raw), -1):
        bad.append("target-row")
    if not (rows[ib].distance.raw_value <= req_raw <= rows[ie].distance.raw_value) or not ib <= ia <= ie:
        bad.append("not-bracketing")
    centre = rows[ia].target_drop.raw_value
    if any(not abs(rows[i].target_drop.raw_value - centre) < half for i in range(ib + 1, ie) if i != ia):
        bad.append("row-outside-target-inside-space")
    for name, i, edge in (("begin", ib, 0), ("end", ie, len(rows) - 1)):
        if i != edge and not abs(rows[i].target_drop.raw_value - centre) >= half:
            bad.append(f"bound-inside-target.{name}")
    if bits_ne(ds.target_height.raw_value, height_raw):
        bad.append("target-height-echo")
    return bad


def ask(ctx, hit, case, at_arg, h_arg, req_raw, height_raw, flow):
    """One more question to a HitResult that has answered others before; the answer is judged for what the arguments mean now."""
    rows = hit.trajectory
    beyond = req_raw > max(r.distance.raw_value for r in rows)
    c = dict(case, flow=flow, at_arg=repr(at_arg), height_arg=repr(h_arg), means_at_range_in=req_raw, means_height_in=height_raw,
             preferred_distance=PreferredUnits.distance.name)
    try:
        ds = hit.danger_space(at_arg, h_arg)
    except ArithmeticError:
        if not beyond:
            ctx.violation(f"session.{flow}.raised", f"danger_space({at_arg!r}, {h_arg!r}) raised ArithmeticError although the request "
                                                    f"({req_raw / 12:.3f} ft) lies within the trajectory", c)
        return
    if beyond:
        ctx.violation(f"session.{flow}.beyond-not-rejected", f"danger_space({at_arg!r}, {h_arg!r}) means {req_raw / 12:.3f} ft under the preferred unit "
                                                             f"{PreferredUnits.distance.name}, beyond the last row, but a danger space was returned", c)
        return
    for key in judge(rows, ds, req_raw, height_raw):
        ctx.violation(f"session.{flow}.{key}", f"danger_space({at_arg!r}, {h_arg!r}) asked of a result that answered other questions before: "
                                               f"[{key}] for the request it means now ({req_raw / 12:.3f} ft, height {height_raw / 12:.4f} ft, "
                                               f"preferred distance unit {PreferredUnits.distance.name})", c)


def session_clause(ctx, hit, case, last_ft):
    """The same HitResult keeps answering while the session goes on: the same plain numbers after the preferred distance unit was
    switched mean another range / height; a plain number that equals the raw value of a quantity asked before is not that quantity."""
    ses = case.get("session")
    if not ses:
        return
    saved = PreferredUnits.distance
    try:
        n_at, n_h = ses["numbers"]
        for unit in ses["units"]:
            PreferredUnits.distance = Unit[unit]
            ask(ctx, hit, case, n_at, n_h, Unit[unit](n_at).raw_value, Unit[unit](n_h).raw_value, "same-numbers-after-unit-switch")
            ctx.count("same_numbers_after_unit_switch")
        # a quantity first, then the plain number equal to its raw (inch) value
        q_in = round(ses["frac"] * last_ft * 12.0)
        h_in = ses["h_in"]
        if q_in >= 1:
            PreferredUnits.distance = Unit[ses["units"][0]]
            ask(ctx, hit, case, Distance.Inch(q_in), Distance.Inch(h_in), float(q_in), float(h_in), "quantity")
            u = PreferredUnits.distance
            for at_n, h_n in ((q_in, h_in), (float(q_in), float(h_in))):
                ask(ctx, hit, case, at_n, h_n, u(at_n).raw_value, u(h_n).raw_value, "plain-number-after-equal-raw-quantity")
                ctx.count("plain_number_after_equal_raw_quantity")
    finally:
        PreferredUnits.distance = saved


def bits_ne(a, b):
    return abs(a - b) > 1e-12 * max(abs(a), abs(b), 1e-300)


def check_case(ctx, case):
    reset_globals()
    if case.get("prefs"):
        # the session prefers other units (as after loadMetricUnits / loadMixedUnits or a pybc.toml): every argument below is an
        # explicit quantity, so nothing may change
        for slot, unit in case["prefs"].items():
            setattr(pb.PreferredUnits, slot, Unit[unit])
        ctx.count("cases_under_other_preferred_units")
    shot = build.shot(case["shot"])
    if case["shot"].get("cant_deg"):
        ctx.count("canted_shots")
    calc = Calculator()
    if case.get("zero_ft"):
        try:
            calc.set_weapon_zero(shot, Distance.Foot(case["zero_ft"]))
        except (pb.ZeroFindingError, pb.RangeError):
            pass
    try:
        hit = calc.fire(shot, Distance.Foot(case["range_ft"]), Distance.Foot(case["step_ft"]), extra_data=True)
    except pb.RangeError as err:
        hit = HitResult(shot, err.incomplete_trajectory, True)
    rows = hit.trajectory
    if case.get("reaim_deg") is not None:
        shot.look_angle = pb.Angular.Degree(case["reaim_deg"])       # the Shot object is re-used for the next target afterwards
        ctx.count("shot_reaimed_after_fire")
    ds_ = [r.distance.raw_value for r in rows]
    if any(b < a for a, b in zip(ds_, ds_[1:])):
        # a lofted shot drifting back in a head wind: rows are no longer ordered by distance and 'the rows that bracket
        # the range' is not defined; the statement is applied to trajectories that keep moving down-range
        ctx.count("trajectories_moving_backwards_skipped")
        return
    if case["shot"].get("look_deg"):
        ctx.count("inclined_sight_line")
    # "beyond the computed trajectory" = beyond its farthest row (a lofted shot in a head wind drifts back at the end)
    last_ft = max(r.distance >> Distance.Foot for r in rows)
    for q_frac, heights in case["queries"]:
        q_ft = q_frac * last_ft
        prev = None
        for h_ft, h_unit in heights:
            res = check_space(ctx, hit, case, q_ft, h_ft, h_unit)
            if res is None:
                continue
            if prev is not None:
                ctx.count("monotonic_pairs")
                if not (res[0] <= prev[0] and res[1] >= prev[1]):
                    ctx.violation("not-monotonic-in-height", f"taller target has danger space rows {res}, shorter one {prev}",
                                  dict(case, at_range_ft=q_ft, height_ft=h_ft))
            prev = res
    session_clause(ctx, hit, case, last_ft)
    # target heights that hug a row: twice the drop difference between the target row and some other row, a hair more / less -
    # 'at least half the target height away' and 'within half the target height' are exact comparisons
    for fa, fj, f in case.get("edge_hugging") or []:
        ia, j = int(fa * (len(rows) - 1)), int(fj * (len(rows) - 1))
        gap = abs(rows[j].target_drop.raw_value - rows[ia].target_drop.raw_value)
        if ia == j or gap <= 0:
            continue
        at_q, h_q = Distance.Inch(rows[ia].distance.raw_value), Distance.Inch(2.0 * gap * f)
        ask(ctx, hit, case, at_q, h_q, at_q.raw_value, h_q.raw_value, "edge-hugging")
        ctx.count("edge_hugging_heights")
    # beyond the computed trajectory
    for extra in (1e-6, 1.0, 1000.0):
        try:
            hit.danger_space(Distance.Foot(last_ft + extra), Distance.Foot(1.0))
            ctx.violation("beyond-not-rejected", f"request {extra} ft beyond the last row returned a danger space", case)
        except ArithmeticError:
            ctx.count("beyond_rejected")
    # bare numbers are the preferred distance unit (explicit equivalence itself is C07's)
    plain = HitResult(shot, rows, False)
    try:
        plain.danger_space(Distance.Foot(last_ft / 2), Distance.Foot(1.0))
        ctx.violation("plain-not-rejected", "danger_space on a result without extra data did not raise", case)
    except AttributeError:
        ctx.count("plain_rejected")
    reset_globals()


def gen_case(rng):
    s = gen.shot(rng, custom=0.05, cant=rng.random() < 0.25, twist=False, wind_n=rng.choice([0, 0, 1]))   # a canted rifle: the target still stands upright
    style = rng.choice(["flat", "flat", "arc", "arc", "inclined"])
    s["look_deg"] = 0.0
    if style == "flat":
        s["rel_deg"], s["zero_deg"] = 0.0, 0.0
        zero_ft = rng.choice([150.0, 300.0, 600.0])
        range_ft = rng.choice([900.0, 1500.0, 3000.0])
    elif style == "arc":
        s["rel_deg"], s["zero_deg"] = round(rng.uniform(5, 40), 2), 0.0
        zero_ft = None
        range_ft = rng.choice([600.0, 2000.0, 6000.0])
    else:
        s["look_deg"] = round(rng.choice([-1, 1]) * rng.uniform(2, 30), 2)
        s["rel_deg"], s["zero_deg"] = rng.choice([0.0, round(rng.uniform(0.1, 3), 2)]), 0.0
        zero_ft = rng.choice([None, 300.0, 900.0])
        range_ft = rng.choice([900.0, 1800.0])
    s["sight_height_in"] = rng.choice([0.0, 2.0, 3.5, -1.5])
    step = rng.choice([1.0, 3.0, 10.0, 25.0, 100.0])
    if range_ft / step > 700:
        step = range_ft / 700
    queries = []
    for _ in range(6):
        hs = sorted(rng.choice([rng.uniform(0.01, 0.5), rng.uniform(0.5, 6), rng.uniform(6, 60)]) for _ in range(3))
        queries.append([rng.choice([0.0, 1.0, rng.uniform(0.02, 0.5), rng.uniform(0.5, 0.98)]),
                        [[round(h, 4), rng.choice(DIST)] for h in hs]])
    prefs = None
    if rng.random() < 0.25:
        prefs = {"distance": rng.choice(DIST), "target_height": rng.choice(DIST), "drop": rng.choice(DIST),
                 "angular": rng.choice(si.DIMENSIONS["Angular"]), "adjustment": rng.choice(si.DIMENSIONS["Angular"])}
    session = None
    if rng.random() < 0.35:
        # numbers that are a sensible range / height in yards, metres and feet alike
        session = {"numbers": [rng.choice([50, 120, 200.0, round(rng.uniform(20, 0.3 * range_ft), 1)]), rng.choice([1, 0.5, 2.5, round(rng.uniform(0.2, 8), 2)])],
                   "units": rng.sample(["Yard", "Meter", "Foot", "Inch", "Centimeter"], 3), "frac": round(rng.uniform(0.05, 0.9), 3),
                   "h_in": rng.choice([6, 20, 40])}
    edge = [[round(rng.random(), 4), round(rng.random(), 4), rng.choice([1 - 4e-7, 1 - 1e-9, 1.0, 1 + 1e-9, 1 + 4e-7, 1 - 3e-5])]
            for _ in range(6)] if rng.random() < 0.5 else None
    return {"shot": s, "zero_ft": zero_ft, "range_ft": range_ft, "step_ft": step, "queries": queries, "prefs": prefs, "session": session,
            "edge_hugging": edge,
            "bare_at_range": rng.random() < 0.3,
            "look_arg_deg": rng.choice([None, None, 0.0, round(rng.uniform(-30, 30), 1)]),
            "reaim_deg": rng.choice([None, None, None, round(rng.uniform(-20, 20), 1)])}


def run(ctx):
    total = 1000 if ctx.tier == "quick" else 30000
    for _ in range(ctx.share(total)):
        if not ctx.time_left():
            break
        check_case(ctx, gen_case(ctx.rng))


def replay(ctx, case):
    case = {k: v for k, v in case.items() if k not in ("at_range_ft", "height_ft", "height_unit")}
    check_case(ctx, case)
