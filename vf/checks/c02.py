"""C02 - zeroing returns an elevation that actually hits the point of aim.

Monitor shape: fire-back of every returned zero (the row at the aim point's horizontal distance, with the M-STEP trace
of that same fire giving the largest step the zero finder can overshoot by); a bracketing search with Calculator.fire as
a black box (R-ZERO) adjudicates every raise; stored zero compared around failures."""
import math
import os

import py_ballisticcalc as pb
from py_ballisticcalc import Angular, Calculator, Distance, Velocity

from vf import build, gen, monitors

ID = "C02"
RULE = ("random un-canted shots x look angle {0, +-0.5, +-5, +-30, +-45, +-59 deg and random} x zero distance 5 yd .. near the "
        "reach x winds (0-2 segments incl. strong head / tail) x sight height (0, negative, up to 5 in) x previously stored "
        "zero {0, +-2, +-20 deg} x set_weapon_zero / barrel_elevation_for_target; only targets that a launch along the sight "
        "line reaches are judged; a case = (shot, distance, api); non-trivial when look != 0 or a wind is present or the "
        "distance exceeds 300 yd or the stored zero is non-zero")
MUST_OBSERVE = ["zeroings", "zeroings_judged", "fire_backs", "look_level", "look_small", "look_steep", "with_wind",
                "stored_zero_nonzero", "api_set_weapon_zero", "api_barrel_elevation", "raises_adjudicated", "unreachable_precondition", "raises_with_precondition_false",
                "failures_zero_kept_checked", "zeroed_before_under_other_conditions", "powder_sensitive_zeroings", "bare_number_zero_distances", "raises_under_configured_low_cap"]
ASSUMPTIONS = ["'one integration step of travel' = the largest overshoot the zero finder's end condition permits: (min step + longest "
               "down-range advance of one step) / cos(trajectory angle), taken from the step trace of the fire-back; bound = accuracy + "
               "1.25 x (overshoot x |sin(relative angle)| + curvature remainder)",
               "a raise is judged by a bracketing search on elevation in [look-5deg, look+45deg] using Calculator.fire as a black box: it "
               "is a violation only if a solution exists that stays reachable 0.5 deg higher",
               "known finding C02.iteration-cap: ZeroFindingError at the cap, reachable, cured by cap x 10, hold-over > 3 deg"]
G = 32.17405


def budget(tier):
    return {"shards": 14, "deadline_s": 80 if tier == "quick" else 1800}


def fire_to(calc, shot, x_ft, trace=None):
    with monitors.quiet():
        if trace is not None:
            with trace:
                return calc.fire(shot, Distance.Foot(x_ft), Distance.Foot(x_ft))
        return calc.fire(shot, Distance.Foot(x_ft), Distance.Foot(x_ft))


def row_at(hit, x_ft):
    for r in hit:
        if abs((r.distance >> Distance.Foot) - x_ft) <= 1e-6 * max(1.0, x_ft):
            return r
    return None


def drop_at(calc, spec, elev_deg, x_ft):
    """target_drop [ft] at x for an absolute barrel elevation, or None when the trajectory ends before x."""
    s = dict(spec, zero_deg=0.0, rel_deg=elev_deg - spec.get("look_deg", 0.0))
    try:
        r = row_at(fire_to(calc, build.shot(s), x_ft), x_ft)
    except pb.RangeError:
        return None
    return None if r is None else r.target_drop >> Distance.Foot


def r_zero(calc, spec, x_ft, accuracy):
    """Bracket + bisect.  Returns (elevation_deg, robust) or None."""
    look = spec.get("look_deg", 0.0)
    prev_t, prev_f = None, None
    t = look - 5.0
    while t <= look + 45.0 + 1e-9:
        f = drop_at(calc, spec, t, x_ft)
        if f is not None and prev_f is not None and prev_f < 0 <= f:
            lo, hi = prev_t, t
            for _ in range(50):
                mid = 0.5 * (lo + hi)
                fm = drop_at(calc, spec, mid, x_ft)
                if fm is None:
                    return None
                if abs(fm) <= 10 * accuracy:
                    break
                if fm < 0:
                    lo = mid
                else:
                    hi = mid
            else:
                return None
            robust = drop_at(calc, spec, mid + 0.5, x_ft) is not None
            return mid, robust
        if f is not None:
            prev_t, prev_f = t, f
        elif prev_f is not None and prev_f < 0:
            prev_t, prev_f = None, None
        t += 1.0 if t < look + 10 else 2.5
    return None


def judge_fire_back(ctx, calc, cfg, spec, elev_rad_abs, d_ft, case, who="returned zero"):
    """The accuracy oracle.  Returns ratio miss/bound (or None when the fire-back could not be made)."""
    look = math.radians(spec.get("look_deg", 0.0))
    x_ft = d_ft * math.cos(look)
    s = dict(spec, zero_deg=0.0, rel_deg=math.degrees(elev_rad_abs - look))
    trace = monitors.StepTrace()
    try:
        hit = fire_to(calc, build.shot(s), x_ft, trace)
    except pb.RangeError:
        ctx.violation("fire-back-falls-short", f"{who}: the trajectory fired with the returned elevation does not reach the aim point's distance", case)
        return None
    ctx.count("fire_backs")
    r = row_at(hit, x_ft)
    if r is None:
        ctx.skip("no row at the aim distance in the fire-back")
        return None
    miss = abs(r.target_drop >> Distance.Foot)
    pts = trace.points
    calc_step = (cfg or {}).get("max_calc_step_size_feet", 0.5) / 2.0
    dx_max = max((b[1] - a[1] for a, b in zip(pts, pts[1:])), default=calc_step)
    ang = r.angle >> Angular.Radian
    vx = (r.velocity >> Velocity.FPS) * math.cos(ang)
    s_max = (min(calc_step, x_ft) + dx_max) / max(1e-6, math.cos(ang))
    kappa = 2 * G * abs(math.cos(ang)) / max(1.0, vx * vx)
    acc = (cfg or {}).get("cZeroFindingAccuracy", 0.000005)
    bound = acc + 1.25 * (s_max * abs(math.sin(ang - look)) + 0.5 * kappa * s_max * s_max) + 1e-9
    ctx.max("miss_over_bound", miss / bound)
    if miss > bound:
        ctx.violation("zero-misses-point-of-aim",
                      f"{who}: fired back with elevation {math.degrees(elev_rad_abs):.5f} deg the trajectory is {miss * 12:.4f} in from the sight line at the "
                      f"aim point ({d_ft:.1f} ft, look {spec.get('look_deg', 0.0)} deg); allowed {bound * 12:.4f} in (accuracy + one step {s_max:.3f} ft x "
                      f"relative slope {abs(math.sin(ang - look)):.4f})", case, miss_ft=miss, bound_ft=bound)
    return miss / bound


def check_case(ctx, case):
    monitors.reset_all()
    spec, d_ft, cfg = case["shot"], case["distance_ft"], case.get("config")
    look_deg = spec.get("look_deg", 0.0)
    look = math.radians(look_deg)
    x_ft = d_ft * math.cos(look)
    calc = build.calculator(cfg)
    ctx.count("zeroings")
    if case["shot"].get("lobbed_shot"):
        ctx.count("lobbed_shots")
    if case["shot"].get("slow_downhill_beyond_level_vacuum_range"):
        ctx.count("slow_downhill_beyond_level_vacuum_range")
    # precondition: a launch along the sight line reaches X within the limits
    along = dict(spec, zero_deg=0.0, rel_deg=0.0)
    try:
        fire_to(build.calculator(cfg), build.shot(along), x_ft)
    except pb.RangeError:
        ctx.count("unreachable_precondition")
        ctx.case(case, nontrivial=False, sample=False)
        # still: a failed attempt must leave the stored zero alone, and a returned angle must hit
    if case.get("prior_zero"):
        # the calculator has just zeroed this very set-up under other wind / weather (same station altitude)
        prior = dict(spec, winds=case["prior_zero"]["winds"], atmo=case["prior_zero"]["atmo"])
        ctx.count("zeroed_before_under_other_conditions")
        with monitors.quiet():
            try:
                calc.barrel_elevation_for_target(build.shot(prior), Distance.Foot(d_ft))
            except (pb.ZeroFindingError, pb.RangeError):
                pass
    shot = build.shot(spec)
    stored_before = shot.weapon.zero_elevation.raw_value
    api = case["api"]
    ctx.count("api_" + api)
    band = "look_level" if look_deg == 0 else "look_small" if abs(look_deg) <= 5 else "look_steep"
    err = None
    with monitors.quiet():
        try:
            target = Distance.Foot(d_ft)
            if case.get("bare_in"):
                # the zero distance as a bare number in the session's preferred distance unit (switched after the set-up was built)
                pb.PreferredUnits.distance = pb.Unit[case["bare_in"]]
                target = Distance.Foot(d_ft) >> pb.Unit[case["bare_in"]]
                ctx.count("bare_number_zero_distances")
            if api == "set_weapon_zero":
                ret = calc.set_weapon_zero(shot, target)
            else:
                ret = calc.barrel_elevation_for_target(shot, target)
        except (pb.ZeroFindingError, pb.RangeError) as e:
            err = e
        finally:
            if case.get("bare_in"):
                pb.PreferredUnits.defaults()
    nontrivial = bool(look_deg) or bool(spec.get("winds")) or d_ft > 900 or bool(spec.get("zero_deg"))
    precondition_ok = True
    try:
        fire_to(build.calculator(cfg), build.shot(along), x_ft)
    except pb.RangeError:
        precondition_ok = False
    if err is None:
        hold = ret >> Angular.Radian          # elevation above the sight line
        if api == "set_weapon_zero":
            if shot.weapon.zero_elevation.raw_value != ret.raw_value:
                ctx.violation("zero-not-stored", "set_weapon_zero returned an angle different from the stored zero", case)
        elif shot.weapon.zero_elevation.raw_value != stored_before:
            ctx.violation("elevation-query-changed-zero", "barrel_elevation_for_target changed the weapon's stored zero", case)
        ctx.count("zeroings_judged")
        ctx.count(band)
        if spec.get("winds"):
            ctx.count("with_wind")
        if spec.get("zero_deg"):
            ctx.count("stored_zero_nonzero")
        if spec.get("powder"):
            ctx.count("powder_sensitive_zeroings")
        judge_fire_back(ctx, calc, cfg, spec, look + hold, d_ft, case)
        ctx.case(case, nontrivial=nontrivial)
    else:
        ctx.count("failures_zero_kept_checked")
        if not precondition_ok:
            ctx.count("raises_with_precondition_false")
        if shot.weapon.zero_elevation.raw_value != stored_before:
            ctx.violation("failed-zeroing-changed-stored-zero", f"{type(err).__name__} raised but the weapon's stored zero changed from "
                                                                f"{stored_before!r} to {shot.weapon.zero_elevation.raw_value!r} rad", case)
        low_cap = (cfg or {}).get("cMaxIterations", 20) < 20
        if precondition_ok and low_cap and isinstance(err, pb.ZeroFindingError) and err.iterations_count >= cfg["cMaxIterations"]:
            # the user capped the search at 1-3 rounds: giving up with an error is what the statement asks for
            ctx.count("raises_under_configured_low_cap")
        elif precondition_ok:
            # adjudicate: was the target reachable?
            ctx.count("raises_adjudicated")
            acc = (cfg or {}).get("cZeroFindingAccuracy", 0.000005)
            sol = r_zero(build.calculator(cfg), spec, x_ft, acc)
            if sol is not None and sol[1]:
                key, what = "zeroing-failed-for-reachable-target", (
                    f"{type(err).__name__} ({err}) although elevation {sol[0]:.4f} deg hits the aim point ({d_ft:.1f} ft at look {look_deg} deg) "
                    f"and the target stays reachable 0.5 deg higher")
                if isinstance(err, pb.ZeroFindingError):
                    cap = (cfg or {}).get("cMaxIterations", 20)
                    hold_deg = sol[0] - look_deg
                    if err.iterations_count >= cap:
                        # how the failed search moved: launch elevations of its trial trajectories (first point of each integration)
                        tr = monitors.StepTrace()
                        with monitors.quiet(), tr:
                            try:
                                build.calculator(cfg).barrel_elevation_for_target(build.shot(spec), Distance.Foot(d_ft))
                            except (pb.ZeroFindingError, pb.RangeError):
                                pass
                        trial = [math.atan2(p_[5], p_[4]) for p_ in tr.points if p_[0] == 0.0]
                        need = math.radians(sol[0]) - trial[0] if trial else 0.0
                        first_fraction = (trial[1] - trial[0]) / need if len(trial) > 1 and need else None
                        big = build.calculator(dict(cfg or {}, cMaxIterations=cap * 10))
                        try:
                            with monitors.quiet():
                                h2 = big.barrel_elevation_for_target(build.shot(spec), Distance.Foot(d_ft)) >> Angular.Radian
                            ratio = judge_fire_back(ctx, big, cfg, spec, look + h2, d_ft, case, who="zero with cap x 10")
                            # strongly curved trajectory: direction at the target vs launch direction
                            arrive = row_at(fire_to(big, build.shot(dict(spec, zero_deg=0.0, rel_deg=math.degrees(h2))), x_ft), x_ft)
                            bend_deg = abs(math.degrees((arrive.angle >> Angular.Radian) - (look + h2))) if arrive is not None else 0.0
                            if ratio is not None and ratio <= 1.0 and (bend_deg > 2.0 or hold_deg > 3.0):
                                key = "C02.iteration-cap"
                        except pb.ZeroFindingError as e10:
                            # still converging, only slowly: the error shrank at least 100-fold over the extra rounds
                            if e10.zero_finding_error * 100 <= err.zero_finding_error and hold_deg > 3.0:
                                key = "C02.iteration-cap"
                        except pb.RangeError:
                            pass
                if key == "C02.iteration-cap" and not (locals().get("first_fraction") is not None and 0.3 <= locals()["first_fraction"] <= 3.0):
                    # the listed mechanism is a search that starts with a correction of the size of the need (measured 0.5-1.4 of
                    # it on the unchanged tree) and then converges linearly; a search that creeps towards the solution in small
                    # steps (or moves the wrong way) and runs out of rounds is another mechanism - reported
                    key = "zeroing-failed-for-reachable-target"
                ctx.violation(key, what, case, error=type(err).__name__, hold_over_deg=sol[0] - look_deg,
                              first_correction_fraction=locals().get("first_fraction"), trials=len(locals().get("trial") or []))
            else:
                ctx.count("raises_legitimate_out_of_reach")
        ctx.case(case, nontrivial=nontrivial)
    monitors.reset_all()


def gen_case(rng):
    s = gen.shot(rng, custom=0.08, cant=False, twist=rng.random() < 0.3, look=False, wind_n=0)
    s["rel_deg"] = 0.0
    s["look_deg"] = rng.choice([0.0, 0.0, 0.5, -0.5, 5.0, -5.0, 30.0, -30.0, 45.0, -45.0, 59.0, -59.0, round(rng.uniform(-60, 60), 2)])
    s["zero_deg"] = rng.choice([0.0, 0.0, 0.0, 2.0, -2.0, 20.0, -20.0, round(rng.uniform(-1, 1), 3)])
    s["sight_height_in"] = rng.choice([0.0, -1.5, 1.5, 2.5, 5.0])
    k = rng.random()
    if k < 0.35:
        s["winds"] = [[round(rng.uniform(5, 60), 1), rng.choice([0.0, 180.0, 90.0, round(rng.uniform(0, 360), 1)]), None]]
    elif k < 0.5:
        s["winds"] = [[round(rng.uniform(5, 60), 1), rng.choice([0.0, 180.0]), round(rng.uniform(50, 600), 0)],
                      [round(rng.uniform(5, 40), 1), round(rng.uniform(0, 360), 1), None]]
    d_yd = rng.choice([5.0, 10.0, 25.0, 50.0, 100.0, 100.0, 200.0, 300.0, 500.0, round(rng.uniform(5, 800), 1)])
    if rng.random() < 0.12:
        d_yd = rng.choice([1000.0, 1500.0, 2500.0])       # towards the reach of the cartridge
    if s["mv_fps"] < 1200:
        d_yd = min(d_yd, 500.0)
    if rng.random() < 0.06:     # clearly out of reach: a slow projectile, a far target high above - zeroing must raise, not return
        s["mv_fps"] = round(rng.uniform(300, 500), 0)
        s["look_deg"] = rng.choice([45.0, 59.0, 30.0])
        s["bc"] = round(rng.uniform(0.05, 0.15), 3)
        d_yd = rng.choice([600.0, 900.0])
    if rng.random() < 0.05:     # aim point below the calculator's altitude floor (-1410.7 ft): the sight line reaches it, no trajectory can
        s["look_deg"] = rng.choice([-59.0, -45.0, -30.0])
        s["atmo"] = {"kind": "icao", "alt_ft": 0.0}
        s["mv_fps"] = max(s["mv_fps"], 2000.0)
        d_yd = round(1500.0 / abs(math.sin(math.radians(s["look_deg"]))) / 3.0 * rng.uniform(1.02, 1.3), 1)
    if rng.random() < 0.06:
        # a slow projectile, a steep downhill line, an aim point farther down the slope than the level vacuum range v0^2/g - and
        # still within reach (gravity helps): inside the property's domain, beyond every rule of thumb about 'maximum range'
        s["mv_fps"] = round(rng.uniform(250, 420), 0)
        s["bc"] = round(rng.uniform(0.25, 0.7), 3)
        s["table"] = rng.choice(["G1", "G7"])
        s["look_deg"] = -round(rng.uniform(25, 45), 1)
        s["atmo"] = {"kind": "icao", "alt_ft": 9000.0}
        s["winds"] = []
        s["zero_deg"] = 0.0
        d_yd = round(s["mv_fps"] ** 2 / 32.17405 * rng.uniform(1.03, 1.5) / 3.0, 1)
        s["slow_downhill_beyond_level_vacuum_range"] = True
    if rng.random() < 0.06:
        # a lobbed shot: slow, draggy projectile zeroed far out - the elevation above the sight line is 12..25 degrees
        s["mv_fps"] = round(rng.uniform(950, 1150), 0)
        s["bc"] = round(rng.uniform(0.1, 0.18), 3)
        s["table"] = "G1"
        s["look_deg"] = rng.choice([0.0, 0.0, 10.0, -8.0])
        s["winds"] = []
        d_yd = round(rng.uniform(1200, 1450) if s["look_deg"] <= 0 else rng.uniform(1100, 1300), 0)
        s["lobbed_shot"] = True
    if rng.random() < 0.2:
        # temperature-sensitive powder stated at another temperature than the air's: zeroing and firing must launch alike
        s["powder"] = {"temp_c": round(rng.uniform(-25, 45), 1), "modifier": round(rng.choice([-1, 1]) * rng.uniform(0.005, 0.03), 4), "use": True}
    case = {"shot": s, "distance_ft": d_yd * 3.0, "api": rng.choice(["set_weapon_zero", "barrel_elevation"])}
    if rng.random() < 0.12:
        case["bare_in"] = rng.choice(["Meter", "Foot", "Yard", "Inch", "Kilometer", "Centimeter"])
    if rng.random() < 0.15:
        case["config"] = rng.choice([{"max_calc_step_size_feet": 1.0}, {"cZeroFindingAccuracy": 1e-4}, {"max_calc_step_size_feet": 0.25}])
    elif rng.random() < 0.08:
        # a search capped at a few rounds: it either meets the accuracy or raises - it never returns a half-converged angle
        case["config"] = {"cMaxIterations": rng.choice([1, 2, 3])}
    if rng.random() < 0.25 and d_yd <= 600:
        alt = s["atmo"].get("alt_ft", 0.0)
        case["prior_zero"] = {"winds": [[round(rng.uniform(10, 50), 1), rng.choice([0.0, 180.0]), None]],
                              "atmo": {"kind": "station", "alt_ft": alt, "p_hpa": round(rng.uniform(650, 1040), 1),
                                       "t_c": round(rng.uniform(-25, 40), 1), "rh": 50.0}}
    return case


def run(ctx):
    total = 260 if ctx.tier == "quick" else 7000
    for _ in range(ctx.share(total)):
        if not ctx.time_left():
            break
        check_case(ctx, gen_case(ctx.rng))


def replay(ctx, case):
    check_case(ctx, case)
