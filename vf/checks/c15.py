"""C15 - event rows mark each sight-line and sonic crossing once, within one step.

Monitor shape: M-STEP trace of the very fire under test (every integration point the recorder was shown) vs the
emitted flagged rows; the crossings are recomputed from the trace alone."""
import math

import py_ballisticcalc as pb
from py_ballisticcalc import Angular, Distance, HitResult, TrajFlag

from vf import build, gen, monitors

ID = "C15"
RULE = ("random shots fired with extra data: sight above / on / below the bore, barrel above / below the sight line, look "
        "+-45 deg, zeroed and un-zeroed, supersonic / transonic / subsonic launches, steep downward shots that re-accelerate "
        "through Mach 1, ranges ending before / after the events, steps 10-300 ft, limits that end the trajectory early; "
        "a case = (shot, request); non-trivial when the trace contains at least one crossing")
MUST_OBSERVE = ["fires_with_time_step", "fires", "trace_points", "up_crossings", "down_crossings", "mach_crossings", "flagged_rows_located",
                "shots_without_events", "zeros_calls", "zeros_raises", "inclined", "launch_on_line",
                "launch_above_line", "same_request_served_before"]
ASSUMPTIONS = ["a launch exactly on the sight line is not a crossing 'beyond the muzzle': for such launches events of the "
               "first integration step are neither required nor forbidden",
               "'within one step after the event' is checked two-sidedly against the crossing step of the trace (the flagged row "
               "may be the interpolated range row of that step)"]


def budget(tier):
    return {"shards": 14, "deadline_s": 60 if tier == "quick" else 1200}


def check_case(ctx, case):
    monitors.reset_all()
    spec = case["shot"]
    shot = build.shot(spec)
    calc = build.calculator(case.get("config"))
    if case.get("zero_ft"):
        with monitors.quiet():
            try:
                calc.set_weapon_zero(shot, Distance.Foot(case["zero_ft"]))
            except (pb.ZeroFindingError, pb.RangeError):
                pass
    look = shot.look_angle >> Angular.Radian
    for _ in range(case.get("fired_before", 0)):
        # the very same request was served before by the same calculator (a table refreshed, a value re-read)
        with monitors.quiet():
            try:
                calc.fire(shot, Distance.Foot(case["range_ft"]), Distance.Foot(case["step_ft"]), extra_data=True, time_step=case.get("time_step") or 0.0)
            except pb.RangeError:
                pass
        ctx.count("same_request_served_before")
    trace = monitors.StepTrace()
    with monitors.quiet(), trace:
        try:
            hit = calc.fire(shot, Distance.Foot(case["range_ft"]), Distance.Foot(case["step_ft"]), extra_data=True,
                            time_step=case.get("time_step") or 0.0)
            rows, raised = list(hit), False
        except pb.RangeError as err:
            rows, raised = list(err.incomplete_trajectory), True
            hit = HitResult(shot, rows, True)
    pts = trace.points
    ctx.count("fires")
    if case.get("time_step"):
        ctx.count("fires_with_time_step")
    ctx.count("trace_points", len(pts))
    if look:
        ctx.count("inclined")
    if not pts:
        ctx.skip("empty trace")
        return
    tanl, cosl = math.tan(look), math.cos(look)
    h = [p[2] - p[1] * tanl for p in pts]
    # the terminal row of an incomplete trajectory is produced outside the recorder: judge only recorder rows
    judged = rows[:-1] if raised else rows
    on_line = h[0] == 0 or pts[0][2] == 0
    if on_line:
        ctx.count("launch_on_line")
    elif pts[0][2] > 0:
        ctx.count("launch_above_line")
    # ---- crossings from the trace alone
    up = down = None
    start = 1
    if pts[0][2] >= 0:          # launch on or above the line: only the down-crossing exists
        seek_down_from = 1
    else:
        seek_down_from = None
        for i in range(1, len(pts)):
            if pts[i][1] > 0 and h[i] >= 0:
                up = i
                seek_down_from = i + 1
                break
    if seek_down_from is not None:
        for i in range(seek_down_from, len(pts)):
            if pts[i][1] > 0 and h[i] < 0:
                down = i
                break
    machs = []
    vm = [math.sqrt(p[4] ** 2 + p[5] ** 2 + p[6] ** 2) / p[7] for p in pts]
    for i in range(1, len(pts)):
        if vm[i - 1] > 1 >= vm[i]:
            machs.append(i)
    del start
    if up is not None:
        ctx.count("up_crossings")
    if down is not None:
        ctx.count("down_crossings")
    ctx.count("mach_crossings", len(machs))
    if len(machs) >= 2:
        ctx.count("shots_with_second_sonic_crossing")
    rising = sum(1 for i in range(1, len(pts)) if vm[i - 1] <= 1 < vm[i])
    if rising:
        ctx.count("rising_sonic_crossings_unflagged_expected", rising)
    if up is None and down is None and not machs:
        ctx.count("shots_without_events")

    def bad(key, what, **kw):
        ctx.violation(key, what, case, **kw)

    def locate(flag, name, idx_list):
        got = [r for r in judged if r.flag & flag]
        want = list(idx_list)
        # launches exactly on the line: an event in the very first step is not asserted either way
        if on_line and flag != TrajFlag.MACH:
            if want and want[0] == 1:
                first_t = pts[1][0]
                got = [r for r in got if r.time > first_t]
                want = want[1:]
        if len(got) != len(want):
            bad(f"{name}.count", f"{len(got)} rows flagged {name} but the integration trace contains {len(want)} such crossing(s) "
                                 f"(at t = {[round(pts[i][0], 6) for i in want]})", flagged_times=[r.time for r in got])
            return
        for r, i in zip(got, want):
            ctx.count("flagged_rows_located")
            if r.flag & TrajFlag.RANGE:
                ctx.count("event_on_range_row")
            t0, t1 = pts[i - 1][0], pts[i][0]
            if not t0 - 1e-12 <= r.time <= t1 + 1e-12:
                bad(f"{name}.time", f"{name} row at t = {r.time!r} s, crossing step of the trace is [{t0!r}, {t1!r}] s", crossing=i)
                continue
            if flag == TrajFlag.MACH:
                step = abs(vm[i] - vm[i - 1])
                if not abs(r.mach - 1.0) <= 1.05 * step + 1e-9:
                    bad("MACH.distance", f"MACH row has Mach {r.mach!r}; one step's deceleration at the crossing is {step:.3e}")
            else:
                perp0, perp1 = h[i - 1] * cosl, h[i] * cosl
                step = abs(perp1 - perp0)
                td = r.target_drop >> Distance.Foot
                if not abs(td) <= 1.05 * step + 1e-9:
                    bad(f"{name}.distance", f"{name} row is {td!r} ft from the sight line; one step x relative slope at the crossing is {step:.3e} ft")

    locate(TrajFlag.ZERO_UP, "ZERO_UP", [up] if up is not None else [])
    locate(TrajFlag.ZERO_DOWN, "ZERO_DOWN", [down] if down is not None else [])
    locate(TrajFlag.MACH, "MACH", machs)
    ts = [r.time for r in rows]
    for a, b in zip(ts, ts[1:]):
        if b < a:
            bad("time-order", f"rows out of time order: {a!r} then {b!r}")
            break
    # HitResult.zeros()
    ctx.count("zeros_calls")
    want_z = [r for r in rows if r.flag & TrajFlag.ZERO]
    try:
        got_z = hit.zeros()
        if not want_z:
            bad("zeros.no-error", "zeros() returned although no row carries a ZERO flag")
        elif len(got_z) != len(want_z) or any(a is not b for a, b in zip(got_z, want_z)):
            bad("zeros.rows", f"zeros() returned {len(got_z)} rows, {len(want_z)} rows carry a ZERO flag")
    except ArithmeticError:
        ctx.count("zeros_raises")
        if want_z:
            bad("zeros.raised", "zeros() raised although ZERO-flagged rows exist")
    ctx.case(case, nontrivial=(up is not None or down is not None or bool(machs)))
    monitors.reset_all()


def gen_case(rng):
    kind = rng.choice(["zeroed", "zeroed", "unzeroed", "inclined", "dive", "dive_accel", "subsonic", "online"])
    if rng.random() < 0.04:
        kind = "loft"
    s = gen.shot(rng, custom=0.1, cant=False, twist=rng.random() < 0.3, wind_n=rng.choice([0, 0, 1]))
    s["look_deg"], s["rel_deg"], s["zero_deg"] = 0.0, 0.0, 0.0
    s["sight_height_in"] = rng.choice([2.0, 3.5, 0.5, -1.5, -3.0, 0.0] if kind != "online" else [0.0])
    zero_ft = None
    cfg = None
    r_ft = rng.choice([600.0, 1500.0, 3000.0, 4500.0])
    if kind == "zeroed":
        zero_ft = rng.choice([75.0, 300.0, 600.0, 900.0])
        r_ft = rng.choice([zero_ft * 0.5, zero_ft * 1.0, zero_ft * 1.5, 3000.0, 6000.0])
    elif kind == "unzeroed":
        s["zero_deg"] = rng.choice([0.0, round(rng.uniform(-0.5, 0.5), 4), round(rng.uniform(0.02, 0.3), 4)])
        s["rel_deg"] = rng.choice([0.0, round(rng.uniform(-1, 5), 3)])
    elif kind == "inclined":
        s["look_deg"] = round(rng.choice([-1, 1]) * rng.uniform(1, 45), 2)
        zero_ft = rng.choice([None, 300.0, 900.0])
        s["rel_deg"] = rng.choice([0.0, round(rng.uniform(-1, 3), 3)])
        r_ft = rng.choice([900.0, 2400.0])
    elif kind == "dive":       # steep downward: slows through Mach 1 and may re-accelerate
        s["mv_fps"] = round(rng.uniform(1150, 1600), 0)
        s["bc"] = round(rng.uniform(0.05, 0.2), 3)
        s["look_deg"] = round(-rng.uniform(50, 85), 1)
        s["atmo"] = {"kind": "icao", "alt_ft": 20000.0}
        r_ft = 3000.0
        cfg = {"cMaximumDrop": -25000.0, "cMinimumVelocity": 0.0}
    elif kind == "dive_accel":  # high BC, thin air: accelerates up through Mach 1 (no event), later slows back through it
        s["mv_fps"] = round(rng.uniform(850, 980), 0)
        s["bc"] = round(rng.uniform(0.9, 1.2), 3)
        s["table"] = rng.choice(["G1", "G7"])
        s["look_deg"] = round(-rng.uniform(75, 86), 1)
        s["atmo"] = {"kind": "icao", "alt_ft": 35500.0}
        s["winds"] = []
        r_ft = rng.choice([1500.0, 3000.0])
        cfg = {"cMaximumDrop": -40000.0, "cMinimumVelocity": 0.0, "cMinimumAltitude": -1000.0}
    elif kind == "loft":        # heavy, very low-drag, lofted: subsonic on the way up, supersonic again falling through thin
        s["table"], s["bc"] = "G1", round(rng.uniform(3.3, 3.7), 2)        # air, braked below Mach 1 again near the ground
        s["mv_fps"] = 3000.0
        s["rel_deg"] = round(rng.uniform(68, 72), 1)
        s["atmo"] = {"kind": "icao", "alt_ft": 0.0}
        s["winds"] = []
        r_ft = 60000.0
        cfg = {"max_calc_step_size_feet": 2.0, "cMaximumDrop": -100.0}
    elif kind == "subsonic":
        s["mv_fps"] = round(rng.uniform(600, 1180), 0)
        zero_ft = rng.choice([75.0, 150.0, 300.0])
        r_ft = rng.choice([450.0, 900.0])
    else:
        s["rel_deg"] = rng.choice([0.1, -0.1, 1.0, 0.0])
    if s["mv_fps"] < 900:
        r_ft = min(r_ft, 1500.0)
    step = rng.choice([10.0, 30.0, 100.0, 300.0]) if kind != "loft" else 3000.0
    if r_ft / step > 400:
        step = r_ft / 400
    case = {"kind": kind, "shot": s, "zero_ft": zero_ft, "range_ft": r_ft, "step_ft": step}
    if kind not in ("loft", "dive", "dive_accel") and rng.random() < 0.25:
        # rows recorded on time as well: events must be flagged all the same (a time record may fall due in the very step of an event)
        case["time_step"] = rng.choice([0.0003, 0.001, 0.004, 0.02])
        if r_ft <= 1500.0 and rng.random() < 0.3:
            case["time_step"] = 1e-5        # below the integration time step: every step is a time record
    if kind != "loft" and rng.random() < 0.3:
        case["fired_before"] = rng.choice([1, 1, 2])
    if cfg:
        case["config"] = cfg
    elif rng.random() < 0.15:
        case["config"] = {"cMinimumVelocity": rng.choice([900.0, 1100.0, 1125.0]), "cMaximumDrop": rng.choice([-2.0, -15000.0])}
    return case


def run(ctx):
    total = 900 if ctx.tier == "quick" else 30000
    for _ in range(ctx.share(total)):
        if not ctx.time_left():
            break
        check_case(ctx, gen_case(ctx.rng))


def replay(ctx, case):
    check_case(ctx, case)
