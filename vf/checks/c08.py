"""C08 - atmosphere reproduces the ISA and is self-consistent across altitude.

Monitor shape: grid + random sampling of the real Atmo/Vacuum objects; oracle R-ISA (written out here) and the
self-consistency relations of the statement."""
import math

from py_ballisticcalc import Atmo, Distance, Pressure, Temperature, Vacuum, Velocity

from vf.build import reset_globals

ID = "C08"
RULE = ("altitude grid -1400..36000 ft (50 ft quick / 5 ft thorough) + random altitudes for the ISA clause; random "
        "(station, query) altitude pairs for cross-altitude consistency incl. the exact station altitude and both sides of "
        "the +-30 ft seam; random (T, P, RH) pairs differing in one input for monotonicity (-60..60 C, 500..1100 hPa, "
        "0..100 %, both humidity conventions); humidity fraction/percent equivalence and rejection; Vacuum at random "
        "altitudes; a case = (clause, inputs); non-trivial unless it is the sea-level standard atmosphere itself")
MUST_OBSERVE = ["isa_points", "cross_pairs", "station_altitude_exact", "seam_checks", "mono_pressure", "mono_temperature",
                "mono_humidity_fraction", "mono_humidity_percent", "humidity_equivalence", "humidity_rejected",
                "vacuum_queries", "nonstandard_station_seam", "history_cases", "isa_points_under_other_preferred_units", "cross_queries_at_sea_level_exactly", "vacuum_humidity_assignments",
                "alive_station_sets", "alive_interleaved_queries"]
ASSUMPTIONS = ["R-ISA: T0 288.15 K, P0 101325 Pa, L 6.5 K/km, g0 9.80665, M 0.0289644, R* 8.31432, gamma 1.4, rho0 1.225 kg/m3",
               "humidity pairs for monotonicity are given in one convention (both fractions in [0,1] or both percents in (1,100])"]
T0, P0, L, G0, M, R, GAMMA, RHO0 = 288.15, 101325.0, 0.0065, 9.80665, 0.0289644, 8.31432, 1.4, 1.225
FT = 0.3048
REL = 1e-4


def budget(tier):
    return {"shards": 14, "deadline_s": 45 if tier == "quick" else 900}


def isa(h_ft):
    h = h_ft * FT
    t = T0 - L * h
    p = P0 * (t / T0) ** (G0 * M / (R * L))
    rho = p * M / (R * t)
    a = math.sqrt(GAMMA * R * t / M)
    return t, p, rho, a


def rel(a, b):
    return abs(a - b) / abs(b)


def check_isa(ctx, h_ft, prefs=None):
    case = {"clause": "isa", "alt_ft": h_ft, "prefs": prefs}
    ctx.case(case, nontrivial=h_ft != 0, sample=False)
    ctx.count("isa_points")
    if prefs:
        # the public readings (altitude, pressure, temperature, mach) are quantities: physically the same under any preferred units
        from py_ballisticcalc import PreferredUnits, Unit  # pylint: disable=import-outside-toplevel
        for slot, unit in prefs.items():
            setattr(PreferredUnits, slot, Unit[unit])
        ctx.count("isa_points_under_other_preferred_units")
    try:
        _check_isa(ctx, h_ft, case)
    finally:
        if prefs:
            reset_globals()


def _check_isa(ctx, h_ft, case):
    a = Atmo.icao(Distance.Foot(h_ft))
    t, p, rho, c = isa(h_ft)
    obs = {"temperature_K": (a.temperature >> Temperature.Kelvin, t),
           "pressure_Pa": ((a.pressure >> Pressure.hPa) * 100.0, p),
           "density": (a.density_ratio * RHO0, rho),
           "speed_of_sound": (a.mach >> Velocity.MPS, c)}
    for name, (got, want) in obs.items():
        ctx.max("isa_rel_" + name, rel(got, want))
        if not rel(got, want) <= REL:
            ctx.violation("isa." + name, f"icao({h_ft} ft) {name} = {got!r}, ISA = {want!r}", case, got=got, want=want)
    if abs((a.altitude >> Distance.Foot) - h_ft) > 1e-9 * max(1, abs(h_ft)):
        ctx.violation("isa.altitude", "station altitude not stored", case)
    if abs(a.density_metric - a.density_ratio * RHO0) > 1e-12 or abs(a.density_imperial / 0.076474 - a.density_ratio) > 1e-12:
        ctx.violation("isa.density-properties", "density_metric/imperial inconsistent with density_ratio", case)


def check_cross(ctx, h0, h1):
    case = {"clause": "cross", "station_ft": h0, "query_ft": h1}
    ctx.case(case, nontrivial=True, sample=False)
    st = Atmo.icao(Distance.Foot(h0))
    dens, mach = st.get_density_factor_and_mach_for_altitude(h1)
    dh = abs(h1 - h0)
    if h1 == h0:
        ctx.count("station_altitude_exact")
        if dens != st.density_ratio or mach != (st.mach >> Velocity.FPS) and abs(mach - (st.mach >> Velocity.FPS)) > 1e-9:
            ctx.violation("cross.station-altitude", f"query at the station altitude {h0} ft returns ({dens!r}, {mach!r}), "
                                                    f"station has ({st.density_ratio!r}, {st.mach >> Velocity.FPS!r})", case)
        return
    tgt = Atmo.icao(Distance.Foot(h1))
    want_d, want_m = tgt.density_ratio, tgt.mach >> Velocity.FPS
    if dh > 30 + 1e-6:     # at 30 ft +- rounding either branch is legitimate: treated with the seam tolerance below
        ctx.count("cross_pairs")
        ctx.max("cross_rel_density", rel(dens, want_d))
        ctx.max("cross_rel_mach", rel(mach, want_m))
        if not rel(dens, want_d) <= REL:
            ctx.violation("cross.density", f"icao({h0}) predicts density ratio {dens!r} at {h1} ft, icao({h1}) has {want_d!r}", case)
        if not rel(mach, want_m) <= REL:
            ctx.violation("cross.mach", f"icao({h0}) predicts Mach 1 = {mach!r} fps at {h1} ft, icao({h1}) has {want_m!r}", case)
    else:
        # inside the shortcut window: either the station's own value or the model value; never further from the
        # model than the 30-ft lapse
        ctx.count("seam_checks")
        _, _, rho30, a30 = isa(h0 + math.copysign(30, h1 - h0))
        _, _, rho0, a0 = isa(h0)
        lapse_d, lapse_m = abs(rho30 / rho0 - 1), abs(a30 / a0 - 1)
        if not rel(dens, want_d) <= 1.05 * lapse_d + 1e-6:
            ctx.violation("seam.density", f"inside the window ({h1 - h0:+.3f} ft) density ratio is off the model by {rel(dens, want_d):.3e}, "
                                          f"30-ft lapse is {lapse_d:.3e}", case)
        if not rel(mach, want_m) <= 1.05 * lapse_m + 1e-6:
            ctx.violation("seam.mach", f"inside the window ({h1 - h0:+.3f} ft) Mach 1 is off the model by {rel(mach, want_m):.3e}, "
                                       f"30-ft lapse is {lapse_m:.3e}", case)


def own_model(alt0, t_c, p_hpa, dens0, h):
    """Lapse model from the station's own values (formulas of the barometric troposphere)."""
    t0k = t_c + 273.15
    tk = t0k - L * FT * (h - alt0)
    p = p_hpa * (tk / t0k) ** (G0 * M / (R * L))
    return dens0 * (p / p_hpa) * (t0k / tk), math.sqrt(tk / t0k)


def check_station_seam(ctx, case):
    """Arbitrary station: own values at the station altitude; jump across +-30 ft no more than the 30-ft lapse."""
    ctx.case(case, nontrivial=True, sample=True)
    ctx.count("nonstandard_station_seam")
    st = Atmo(Distance.Foot(case["alt_ft"]), Pressure.hPa(case["p_hpa"]), Temperature.Celsius(case["t_c"]), case["rh"])
    d0, m0 = st.get_density_factor_and_mach_for_altitude(case["alt_ft"])
    if d0 != st.density_ratio or abs(m0 - (st.mach >> Velocity.FPS)) > 1e-9:
        ctx.violation("station.own-values", "query at the station altitude does not return the station's own values", case)
    for side in (-1, 1):
        for off in (29.999, 30.0, 30.001, 5.0, 100.0):
            h = case["alt_ft"] + side * off
            d, m = st.get_density_factor_and_mach_for_altitude(h)
            wd, wm = own_model(case["alt_ft"], case["t_c"], case["p_hpa"], st.density_ratio, h)
            wd30, wm30 = own_model(case["alt_ft"], case["t_c"], case["p_hpa"], st.density_ratio, case["alt_ft"] + side * 30)
            lapse_d, lapse_m = abs(wd30 / st.density_ratio - 1), abs(wm30 - 1)
            tol_d = (1.05 * lapse_d if off < 30 + 1e-6 else 0.0) + 2e-4
            tol_m = (1.05 * lapse_m if off < 30 + 1e-6 else 0.0) + 2e-4
            if not rel(d, wd) <= tol_d:
                ctx.violation("station.seam-density", f"{side * off:+} ft from the station: density ratio {d!r}, lapse model {wd!r}", case)
            if not rel(m / m0, wm) <= tol_m:
                ctx.violation("station.seam-mach", f"{side * off:+} ft from the station: Mach ratio {m / m0!r}, lapse model {wm!r}", case)


def check_mono(ctx, case):
    ctx.case(case, nontrivial=True, sample=False)
    base = dict(case["base"])
    other = dict(base)
    var = case["vary"]
    other[var] = case["other"]
    def dens(d):
        return Atmo(Distance.Foot(0), Pressure.hPa(d["p_hpa"]), Temperature.Celsius(d["t_c"]), d["rh"]).density_ratio
    a, b = dens(base), dens(other)
    lo, hi = (base, other) if base[var] < other[var] else (other, base)
    dl, dh = (a, b) if lo is base else (b, a)
    if var == "p_hpa":
        ctx.count("mono_pressure")
        ok = dh > dl
    elif var == "t_c":
        ctx.count("mono_temperature")
        ok = dh < dl
    else:
        ctx.count("mono_humidity_" + case["convention"])
        ok = dh < dl
    if not ok:
        ctx.violation("monotonic." + var, f"density ratio {dl!r} at {var}={lo[var]} and {dh!r} at {var}={hi[var]} "
                                          f"(others {base})", case)


def check_humidity(ctx, case):
    ctx.case(case, nontrivial=True, sample=False)
    k = case["percent"]
    if case["kind"] == "equiv":
        ctx.count("humidity_equivalence")
        args = (Distance.Foot(case["alt_ft"]), Pressure.hPa(case["p_hpa"]), Temperature.Celsius(case["t_c"]))
        a, b = Atmo(*args, k), Atmo(*args, k / 100.0)
        c = Atmo(*args, 0.0)
        c.humidity = k
        d = Atmo(*args, 0.0)
        d.humidity = k / 100.0
        ref = (a.humidity, a.density_ratio, a._mach)  # pylint: disable=protected-access
        for name, o in (("fraction ctor", b), ("percent setter", c), ("fraction setter", d)):
            got = (o.humidity, o.density_ratio, o._mach)  # pylint: disable=protected-access
            if any(abs(x - y) > 1e-12 * max(abs(y), 1e-300) for x, y in zip(got, ref)):
                ctx.violation("humidity.equivalence", f"humidity {k}% via {name} gives {got}, via percent ctor {ref}", case)
        if k > 1 and c.density_ratio == Atmo(*args, 0.0).density_ratio and case["t_c"] > -20:
            ctx.violation("humidity.setter-no-effect", "setting humidity did not update the density ratio", case)
    else:
        ctx.count("humidity_rejected")
        for how in ("ctor", "setter"):
            try:
                if how == "ctor":
                    Atmo(Distance.Foot(0), Pressure.hPa(1000), Temperature.Celsius(10), k)
                else:
                    a = Atmo(Distance.Foot(0), Pressure.hPa(1000), Temperature.Celsius(10), 10)
                    a.humidity = k
                ctx.violation("humidity.not-rejected", f"humidity {k} accepted by the {how}", case)
            except ValueError:
                pass


def check_vacuum(ctx, case):
    ctx.case(case, nontrivial=True, sample=False)
    v = Vacuum(Distance.Foot(case["alt_ft"]), Temperature.Celsius(case["t_c"]))
    if v.density_ratio != 0:
        ctx.violation("vacuum.density-ratio", f"Vacuum density_ratio = {v.density_ratio!r}", case)
    for q in case["queries"]:
        ctx.count("vacuum_queries")
        d, m = v.get_density_factor_and_mach_for_altitude(q)
        if d != 0:
            ctx.violation("vacuum.query", f"Vacuum at {case['alt_ft']} ft: density factor {d!r} at {q} ft", case)
        if not (m > 0 and math.isfinite(m)):
            ctx.violation("vacuum.mach", f"Vacuum speed of sound {m!r} at {q} ft", case)
    # a vacuum stays a vacuum whatever is assigned to its (meaningless, but public and legal) humidity afterwards
    for hum in case.get("humidity_assigned", []):
        v.humidity = hum
        ctx.count("vacuum_humidity_assignments")
        for q in [case["alt_ft"]] + list(case["queries"][:3]):
            d, _ = v.get_density_factor_and_mach_for_altitude(q)
            if d != 0 or v.density_ratio != 0:
                ctx.violation("vacuum.after-humidity-assignment", f"Vacuum at {case['alt_ft']} ft after humidity = {hum}: density factor {d!r} at {q} ft, "
                                                                  f"density_ratio {v.density_ratio!r}", case)
                return


def check_history(ctx, case):
    """A standard atmosphere requested again after an earlier instance was modified / after the preferred unit changed."""
    from py_ballisticcalc import PreferredUnits, Unit, Shot, Weapon, Ammo, DragModel
    import py_ballisticcalc as pb
    reset_globals()
    ctx.case(case, nontrivial=True, sample=True)
    ctx.count("history_cases")
    h = case["alt_ft"]
    arg = Distance.Foot(h) if case["explicit"] else h
    if not case["explicit"]:
        PreferredUnits.distance = Unit.Foot
    first = Atmo.icao(arg) if case["via"] == "icao" else Atmo.standard(arg)
    first.humidity = case["humidity"]            # public setter on the caller's own instance
    if case.get("shot"):
        Shot(Weapon(), Ammo(DragModel(0.3, pb.TableG7), Velocity.FPS(2500))).atmo.humidity = case["humidity"]
    again = Atmo.icao(Distance.Foot(h) if case["explicit"] else h)
    t, p, rho, c = isa(h)
    for name, got, want in (("density", again.density_ratio * RHO0, rho), ("temperature_K", again.temperature >> Temperature.Kelvin, t),
                            ("speed_of_sound", again.mach >> Velocity.MPS, c), ("humidity", again.humidity + 1.0, 1.0)):
        if not rel(got, want) <= REL:
            ctx.violation("history.modified-instance." + name, f"icao({h} ft) requested after the humidity of an earlier instance was set to "
                                                               f"{case['humidity']}: {name} = {got!r}, ISA {want!r}", case)
    default_atmo = Shot(Weapon(), Ammo(DragModel(0.3, pb.TableG7), Velocity.FPS(2500))).atmo
    if not rel(default_atmo.density_ratio * RHO0, isa(0.0)[2]) <= REL:
        ctx.violation("history.default-shot-atmosphere", f"default Shot().atmo has density ratio {default_atmo.density_ratio!r} after earlier instances were modified", case)
    # a station that already answered altitude queries gets another humidity: it must answer like a fresh station
    st = Atmo(Distance.Foot(h), Pressure.hPa(900.0), Temperature.Celsius(12.0), 10.0)
    qs = [h, h + 10.0, h + 500.0, h - 700.0, h + 5000.0]
    for q in qs:
        st.get_density_factor_and_mach_for_altitude(q)
    st.humidity = case["humidity"]
    fresh = Atmo(Distance.Foot(h), Pressure.hPa(900.0), Temperature.Celsius(12.0), case["humidity"])
    for q in qs:
        if st.get_density_factor_and_mach_for_altitude(q) != fresh.get_density_factor_and_mach_for_altitude(q):
            ctx.violation("history.humidity-set-after-queries", f"station at {h} ft queried at {q} ft, humidity then set to {case['humidity']}: "
                                                                f"{st.get_density_factor_and_mach_for_altitude(q)} but a fresh station gives "
                                                                f"{fresh.get_density_factor_and_mach_for_altitude(q)}", case)
            break
    # same bare number, other preferred distance unit
    x = case["bare"]
    PreferredUnits.distance = Unit.Foot
    Atmo.icao(x)
    PreferredUnits.distance = Unit.Meter
    m = Atmo.icao(x)
    if -1400 <= x / FT <= 36000:
        want = isa(x / FT)[2]
        if not rel(m.density_ratio * RHO0, want) <= REL:
            ctx.violation("history.bare-altitude-unit", f"icao({x}) under preferred unit metre (after the same call under foot) has density "
                                                        f"{m.density_ratio * RHO0!r}, ISA at {x} m = {want!r}", case)
    reset_globals()


def _station(spec):
    if spec["kind"] == "vacuum":
        return Vacuum(Distance.Foot(spec["alt_ft"]), Temperature.Celsius(spec["t_c"]))
    if spec["kind"] == "icao":
        return Atmo.icao(Distance.Foot(spec["alt_ft"]))
    return Atmo(Distance.Foot(spec["alt_ft"]), Pressure.hPa(spec["p_hpa"]), Temperature.Celsius(spec["t_c"]), spec["rh"])


def check_alive(ctx, case):
    """Several stations alive at once (a session comparing conditions, a calculator per range): what one of them predicts at an
    altitude depends only on that station.  Each station's answers, taken right after it was built and before the next one
    exists, are the model; afterwards all stations are asked in turn at the very same altitudes (altitude-major order, twice),
    and the standard ones are anchored to R-ISA, the vacuum to a density of exactly 0."""
    reset_globals()
    ctx.case(case, nontrivial=True, sample=True)
    ctx.count("alive_station_sets")
    qs = case["queries"]
    alone, alive = [], []
    for spec in case["stations"]:
        st = _station(spec)
        alone.append([st.get_density_factor_and_mach_for_altitude(q) for q in qs])
        alive.append(st)
    for rnd in (1, 2):
        for j, q in enumerate(qs):
            for i, st in (enumerate(alive) if rnd == 1 else reversed(list(enumerate(alive)))):
                ctx.count("alive_interleaved_queries")
                got = st.get_density_factor_and_mach_for_altitude(q)
                spec = case["stations"][i]
                if got != alone[i][j]:
                    ctx.violation("alive.answer-depends-on-other-stations",
                                  f"station #{i} {spec} asked at {q} ft while {len(alive) - 1} other stations are alive and were asked the same: "
                                  f"{got}; asked right after it was built, before the others existed: {alone[i][j]}", case)
                    return
                if spec["kind"] == "vacuum" and got[0] != 0:
                    ctx.violation("alive.vacuum-density", f"Vacuum asked at {q} ft among other stations: density factor {got[0]!r}", case)
                    return
                if spec["kind"] == "icao" and abs(q - spec["alt_ft"]) >= 30.5 and -1400 <= q <= 36000:
                    _, _, rho, c = isa(q)
                    if not (rel(got[0] * RHO0, rho) <= REL and rel(got[1] * FT, c) <= REL):
                        ctx.violation("alive.isa", f"standard station at {spec['alt_ft']} ft asked at {q} ft among other stations: density "
                                                   f"{got[0] * RHO0!r} kg/m3, speed of sound {got[1] * FT!r} m/s; ISA {rho!r}, {c!r}", case)
                        return
    reset_globals()


def gen_alive(rng):
    stations = []
    for _ in range(rng.choice([2, 3, 4])):
        k = rng.random()
        alt = rng.choice([0.0, round(rng.uniform(-1000, 12000), 0)])
        if k < 0.2:
            stations.append({"kind": "vacuum", "alt_ft": alt, "t_c": round(rng.uniform(-40, 40), 1)})
        elif k < 0.5:
            stations.append({"kind": "icao", "alt_ft": alt})
        else:
            stations.append({"kind": "station", "alt_ft": alt, "p_hpa": round(rng.uniform(600, 1050), 1), "t_c": round(rng.uniform(-40, 45), 1),
                             "rh": rng.choice([0.0, 50.0, 100.0])})
    rng.shuffle(stations)
    qs = [rng.choice([0.0, 2000.0, 5000.0, round(rng.uniform(-1000, 30000), 0)]) for _ in range(4)] + [stations[0]["alt_ft"], stations[-1]["alt_ft"] + 100.0]
    return {"clause": "alive", "stations": stations, "queries": qs}


def run(ctx):
    rng = ctx.rng
    reset_globals()
    for _ in range(ctx.share(300 if ctx.tier == "quick" else 30000)):
        check_alive(ctx, gen_alive(rng))
    for _ in range(ctx.share(200 if ctx.tier == "quick" else 20000)):
        check_history(ctx, {"clause": "history", "alt_ft": rng.choice([0.0, round(rng.uniform(-1000, 30000), 0)]), "explicit": rng.random() < 0.6,
                            "via": rng.choice(["icao", "standard"]), "humidity": rng.choice([100, 50, 0.8]), "shot": rng.random() < 0.5,
                            "bare": round(rng.uniform(100, 9000), 0)})
    step = 50 if ctx.tier == "quick" else 5
    grid = [float(h) for h in range(-1400, 36001, step)]
    for h in ctx.my(grid):
        check_isa(ctx, h)
    n = 4000 if ctx.tier == "quick" else 200000
    from vf import refs_si as si  # pylint: disable=import-outside-toplevel
    slots = {"distance": "Distance", "velocity": "Velocity", "temperature": "Temperature", "pressure": "Pressure"}
    for _ in range(ctx.share(n)):
        prefs = {slot: rng.choice(si.DIMENSIONS[dim]) for slot, dim in slots.items()} if rng.random() < 0.25 else None
        check_isa(ctx, round(rng.uniform(-1400, 36000), 3), prefs)
    for _ in range(ctx.share(n)):
        h0 = rng.choice([0.0, round(rng.uniform(-1400, 36000), 2)])
        k = rng.random()
        if k < 0.15:
            h1 = h0
        elif k < 0.45:
            h1 = h0 + rng.choice([-1, 1]) * rng.choice([29.999, 30.0, 30.001, rng.uniform(0, 30), rng.uniform(30, 60)])
        elif k < 0.5:
            h1 = rng.choice([0.0, -0.0, 0, 1e-9, -1e-9])       # sea level exactly (a legitimate query that is falsy in Python) and next to it
            ctx.count("cross_queries_at_sea_level_exactly")
        else:
            h1 = round(rng.uniform(-1400, 36000), 2)
        h1 = min(36000.0, max(-1400.0, h1)) if h1 else h1
        check_cross(ctx, h0, h1)
    for _ in range(ctx.share(n // 4)):
        check_station_seam(ctx, {"clause": "station-seam", "alt_ft": round(rng.uniform(-1000, 15000), 1),
                                 "p_hpa": round(rng.uniform(500, 1100), 2), "t_c": round(rng.choice([rng.uniform(-40, 45), rng.uniform(-60, 60), rng.uniform(-60, -55)]), 2),
                                 "rh": round(rng.uniform(0, 100), 1)})
    for _ in range(ctx.share(4 * n)):
        conv = rng.choice(["fraction", "percent"])
        rh = (lambda: round(rng.uniform(0, 1), 4)) if conv == "fraction" else (lambda: round(rng.uniform(1.01, 100), 2))
        base = {"p_hpa": round(rng.uniform(500, 1100), 2), "t_c": round(rng.uniform(-60, 60), 2), "rh": rh()}
        var = rng.choice(["p_hpa", "t_c", "rh"])
        if var == "p_hpa":
            other = round(rng.uniform(500, 1100), 2)
        elif var == "t_c":
            other = round(rng.uniform(-60, 60), 2)
        else:
            other = rh()
        mind = {"p_hpa": 0.05, "t_c": 0.05, "rh": 0.005 if conv == "fraction" else 0.5}[var]
        if abs(other - base[var]) < mind:
            continue
        check_mono(ctx, {"clause": "monotonic", "base": base, "vary": var, "other": other, "convention": conv})
    for _ in range(ctx.share(n // 2)):
        if rng.random() < 0.7:
            check_humidity(ctx, {"clause": "humidity", "kind": "equiv", "percent": rng.choice([rng.randint(2, 99), round(rng.uniform(1.01, 99.99), 3)]),   # the literal 1 (= 100 % as a fraction, 1 % as a percent) is ambiguous
                                 "alt_ft": round(rng.uniform(0, 9000), 0), "p_hpa": round(rng.uniform(600, 1050), 1),
                                 "t_c": round(rng.uniform(-30, 45), 1)})
        else:
            check_humidity(ctx, {"clause": "humidity", "kind": "reject",
                                 "percent": rng.choice([-0.001, -1, -50, 100.001, 101, 1000, round(rng.uniform(100.01, 1e4), 2)])})
    for _ in range(ctx.share(n // 4)):
        alt = round(rng.uniform(-1400, 36000), 1)
        check_vacuum(ctx, {"clause": "vacuum", "alt_ft": alt, "t_c": round(rng.uniform(-60, 60), 1),
                           "queries": [alt, alt + 10, alt - 29.9, alt + 30, alt - 31, alt + 5000, -1400.0, 36000.0,
                                       round(rng.uniform(-1400, 36000), 1)],
                           "humidity_assigned": [rng.choice([0, 0.3, 50, 100])] if rng.random() < 0.5 else []})


def replay(ctx, case):
    reset_globals()
    c = case["clause"]
    if c == "isa":
        check_isa(ctx, case["alt_ft"], case.get("prefs"))
    elif c == "cross":
        check_cross(ctx, case["station_ft"], case["query_ft"])
    elif c == "station-seam":
        check_station_seam(ctx, case)
    elif c == "monotonic":
        check_mono(ctx, case)
    elif c == "humidity":
        check_humidity(ctx, case)
    elif c == "vacuum":
        check_vacuum(ctx, case)
    elif c == "history":
        check_history(ctx, case)
    elif c == "alive":
        check_alive(ctx, case)
