"""C06 - unit conversions agree with the SI definitions and invert exactly.

Monitor shape: exhaustive pairs/triples x sampled magnitudes on the real conversion functions; oracle R-SI."""
import itertools
import math
import sys

import py_ballisticcalc as pb
from py_ballisticcalc import Unit

from vf import refs_si as si

ID = "C06"
EXHAUSTIVE = True
RULE = ("all ordered pairs and triples of units within each of the 7 dimensions (41 units; exhaustive) x magnitudes "
        "{0, +-1, random in 1e-8..1e8 of either sign} (angles inside one turn, tangent units |angle|<1.5 rad); "
        "a case = (relation, dimension, units, magnitude); non-trivial when the units differ and the magnitude is non-zero")
MUST_OBSERVE = ["pair_conversions", "round_trips", "triples", "units_seen", "inplace_routes", "relabel_routes", "wide_angle_tangent_readings"]
ASSUMPTIONS = ["R-SI table (vf/refs_si.py): exact inch, pound, grain, nautical mile, g0, conventional mmHg; "
               "Mil = 2pi/6400, Thousandth = 2pi/6000, OClock = 2pi/12",
               "float pi is taken as the library's pi (conversions compared in double precision)"]
EPS = sys.float_info.epsilon
REL = 1e-6
ULPS = 16.0


def budget(tier):
    return {"shards": 14, "deadline_s": 60 if tier == "quick" else 600}


def _dim_cls(dim):
    return getattr(pb, dim)


def magnitudes(rng, dim, a, n, others=()):
    if dim == "Angular":
        # keep the *angle* inside one turn; if any unit involved is a tangent unit, inside its branch (-pi/2, pi/2),
        # the only angles such a unit can express
        lim = 1.5 if (a in si.TANGENT or any(o in si.TANGENT for o in others)) else 2 * math.pi * 0.999
        angles = [0.0, lim, -lim] + [rng.uniform(-lim, lim) for _ in range(n)] + \
                 [10 ** rng.uniform(-8, 0) * rng.choice([-1, 1]) for _ in range(n)]
        return [si.from_base(dim, a, th) for th in angles]
    if dim == "Temperature":
        kel = [rng.uniform(150, 400) for _ in range(n)] + [273.15, 255.3722222222222, 1e-3, 10 ** rng.uniform(0, 4)]
        return [0.0, 1.0, -1.0] + [si.from_base(dim, a, k) for k in kel]
    return [0.0, 1.0, -1.0] + [10 ** rng.uniform(-8, 8) * rng.choice([-1, 1]) for _ in range(2 * n)]


def scale_of(dim, *vals):
    m = max(abs(v) for v in vals)
    if dim == "Temperature":
        m = max(m, 500.0)   # the affine offsets: absolute rounding is relative to them
    return m


def check_pair(ctx, dim, a, b, x):
    ua, ub = Unit[a], Unit[b]
    case = {"rel": "pair", "dim": dim, "a": a, "b": b, "x": x}
    ctx.case(case, nontrivial=(a != b and x != 0))
    q = ua(x)
    got = q >> ub
    got2 = _dim_cls(dim)(x, ua).get_in(ub)
    ctx.count("pair_conversions")
    if got != got2 and not (math.isnan(got) and math.isnan(got2)):
        ctx.violation("pair.api-disagree", f"Unit.{a}({x!r}) >> {b} != {dim}({x!r}, {a}).get_in({b})", case,
                      got=got, got2=got2)
    # the in-place route: read in the first unit, relabel with <<, read again (unit_value and the formatted string)
    q2 = ua(x)
    first = q2.unit_value
    got3 = (q2 << ub).unit_value
    ctx.count("inplace_routes")
    if first != x and not (math.isnan(first) and math.isnan(x)) and abs(first - x) > 4 * EPS * si.condition(dim, a, a, x) * scale_of(dim, x):
        ctx.violation("pair.unit_value-own-unit", f"Unit.{a}({x!r}).unit_value = {first!r}", case)
    if got3 != got:
        ctx.violation("pair.inplace-route", f"q = Unit.{a}({x!r}); q.unit_value; (q << {b}).unit_value = {got3!r} but Unit.{a}({x!r}) >> {b} = {got!r}", case,
                      got=got3, want=got)
    want_str = f"{round(got, ub.accuracy)}{ub.symbol}"
    if str(q2) != want_str:
        ctx.violation("pair.str-after-conversion", f"str() after << {b} gives {str(q2)!r}, expected {want_str!r}", case)
    want = si.convert(dim, a, b, x)
    cond = si.condition(dim, a, b, x)
    tol = REL * cond * scale_of(dim, want) if dim == "Temperature" else REL * cond * abs(want)
    tol += 1e-300
    err = abs(got - want)
    if want != 0:
        ctx.max("pair_rel_err_over_cond", err / (scale_of(dim, want) * cond))
    if not err <= tol:
        ctx.violation(f"pair.{dim}.{a}->{b}", f"{x!r} {a} -> {b}: library {got!r}, SI definition {want!r}", case,
                      got=got, want=want, rel=err / max(abs(want), 1e-300))
    # round trip
    back = ub(got) >> ua
    ctx.count("round_trips")
    cond2 = max(cond, si.condition(dim, b, a, got))
    tol_rt = ULPS * EPS * cond2 * scale_of(dim, x, got) if dim == "Temperature" else \
        ULPS * EPS * cond2 * abs(x)
    err_rt = abs(back - x)
    if x != 0:
        ctx.max("round_trip_ulps_over_cond", err_rt / (EPS * cond2 * (scale_of(dim, x, got) if dim == "Temperature" else abs(x))))
    if not err_rt <= tol_rt + 5e-324:
        ctx.violation(f"roundtrip.{dim}.{a}->{b}", f"{x!r} {a} -> {b} -> {a} = {back!r}", case,
                      back=back, ulps=err_rt / (EPS * max(abs(x), 1e-300)))


def check_triple(ctx, dim, a, b, c, x):
    ua, ub, uc = Unit[a], Unit[b], Unit[c]
    case = {"rel": "triple", "dim": dim, "a": a, "b": b, "c": c, "x": x}
    ctx.case(case, nontrivial=(x != 0), sample=False)
    direct = ua(x) >> uc
    mid = ua(x) >> ub
    via = ub(mid) >> uc
    ctx.count("triples")
    cond = max(si.condition(dim, a, c, x), si.condition(dim, a, b, x), si.condition(dim, b, c, mid))
    sc = scale_of(dim, direct, mid, x) if dim == "Temperature" else abs(direct)
    err = abs(via - direct)
    if direct != 0:
        ctx.max("triple_ulps_over_cond", err / (EPS * cond * sc))
    if not err <= ULPS * EPS * cond * sc + 5e-324:
        ctx.violation(f"transitivity.{dim}", f"{x!r} {a}->{b}->{c} = {via!r} but {a}->{c} = {direct!r}", case,
                      via=via, direct=direct)


def check_relabel_route(ctx, a, t, b, x):
    """An angle of any size (beyond 90 degrees a tangent unit cannot *express* it, but may well be its display label): build in a,
    re-label with << t (nothing is read in t), hand to Unit.b(q): the result read in b is the SI conversion of x from a to b."""
    case = {"rel": "relabel", "dim": "Angular", "a": a, "t": t, "b": b, "x": x}
    ctx.case(case, nontrivial=True, sample=False)
    ctx.count("relabel_routes")
    q = Unit[a](x)
    q << Unit[t]        # pylint: disable=pointless-statement,expression-not-assigned
    r = Unit[b](q)
    got = r >> Unit[b]
    want = si.convert("Angular", a, b, x)
    if not abs(got - want) <= REL * abs(want) + 1e-12:
        ctx.violation("relabel-route", f"q = Unit.{a}({x!r}); q << {t}; Unit.{b}(q) >> {b} = {got!r}, SI: {want!r}", case, got=got, want=want)
    raw0 = Unit[a](x).raw_value
    if r.raw_value != raw0 or q.raw_value != raw0:
        ctx.violation("relabel-route.raw", f"q = Unit.{a}({x!r}); q << {t}; Unit.{b}(q): raw value {r.raw_value!r} / {q.raw_value!r}, was {raw0!r}", case)


def check_wide_tangent(ctx, a, b, x):
    """Reading an angle beyond a quarter turn in a tangent unit is well defined (K tan(angle), negative between 90 and 180 deg);
    only the way back is not (atan loses the half turn), so this direction is checked alone."""
    case = {"rel": "wide-tangent", "dim": "Angular", "a": a, "b": b, "x": x}
    ctx.case(case, nontrivial=True, sample=False)
    ctx.count("wide_angle_tangent_readings")
    theta = si.to_base("Angular", a, x)
    got = Unit[a](x) >> Unit[b]
    want = si.TANGENT[b] * math.tan(theta)
    cond = max(1.0, abs(theta / (math.sin(theta) * math.cos(theta))))
    if not abs(got - want) <= REL * cond * abs(want) + 1e-9:
        ctx.violation(f"pair.wide-angle.{a}->{b}", f"Unit.{a}({x!r}) >> {b} = {got!r}, K tan(angle) = {want!r}", case, got=got, want=want)


def run(ctx):
    n = 20 if ctx.tier == "quick" else 600
    linear = [u for u in si.DIMENSIONS["Angular"] if u not in si.TANGENT]
    for _ in range(ctx.share(400 if ctx.tier == "quick" else 20000)):
        th = ctx.rng.choice([-1, 1]) * ctx.rng.uniform(math.pi / 2 + 0.05, math.pi - 0.01)
        a = ctx.rng.choice(linear)
        check_wide_tangent(ctx, a, ctx.rng.choice(list(si.TANGENT)), si.from_base("Angular", a, th))
    for _ in range(ctx.share(400 if ctx.tier == "quick" else 20000)):
        a, b = ctx.rng.choice(linear), ctx.rng.choice(linear)
        t = ctx.rng.choice(si.DIMENSIONS["Angular"])
        x_rad = ctx.rng.choice([ctx.rng.uniform(-3.1, 3.1), ctx.rng.uniform(1.6, 3.1), -ctx.rng.uniform(1.6, 3.1), ctx.rng.uniform(-1.5, 1.5)])
        check_relabel_route(ctx, a, t, b, si.from_base("Angular", a, x_rad))
    # unit inventory: the library must have exactly the 41 units of the table, in the right dimension
    names = {u.name for u in Unit}
    expect = {u for units in si.DIMENSIONS.values() for u in units}
    if ctx.shard == 0:
        ctx.case({"rel": "inventory", "units": sorted(names)}, nontrivial=False)
        if names != expect:
            ctx.violation("inventory", f"unit set differs: {sorted(names ^ expect)}", {"rel": "inventory"})
        for dim, units in si.DIMENSIONS.items():
            for u in units:
                if u in names and type(Unit[u](1.0)).__name__ != dim:
                    ctx.violation("inventory.dimension", f"{u} builds {type(Unit[u](1.0)).__name__}, expected {dim}",
                                  {"rel": "inventory", "unit": u})
    pairs = [(d, a, b) for d, us in si.DIMENSIONS.items() for a in us for b in us]   # incl. a == b (identity)
    triples = [(d, a, b, c) for d, us in si.DIMENSIONS.items() for a, b, c in itertools.permutations(us, 3)]
    seen = set()
    for d, a, b in ctx.my(pairs):
        seen.update((a, b))
        for x in magnitudes(ctx.rng, d, a, n, (b,)):
            check_pair(ctx, d, a, b, x)
    for d, a, b, c in ctx.my(triples):
        for x in magnitudes(ctx.rng, d, a, max(1, n // 3), (b, c))[2:]:
            check_triple(ctx, d, a, b, c, x)
    ctx.count("units_seen", len(seen))
    ctx.note("pairs_total", len(pairs))
    ctx.note("triples_total", len(triples))


def replay(ctx, case):
    if case["rel"] == "pair":
        check_pair(ctx, case["dim"], case["a"], case["b"], case["x"])
    elif case["rel"] == "triple":
        check_triple(ctx, case["dim"], case["a"], case["b"], case["c"], case["x"])
    elif case["rel"] == "wide-tangent":
        check_wide_tangent(ctx, case["a"], case["b"], case["x"])
    elif case["rel"] == "relabel":
        check_relabel_route(ctx, case["a"], case["t"], case["b"], case["x"])
