"""C13 - a quantity's magnitude is immutable and comparisons follow magnitude.

Monitor shape: history monitor with a shadow model.  A pool of quantities is built; the shadow stores, at
construction, raw_value and get_in(u) for every unit of the dimension and the first hash.  Random operation
sequences run on the real objects; after every operation the whole pool is re-read and compared bit-exactly."""
import math
import operator

import py_ballisticcalc as pb
from py_ballisticcalc import (Ammo, Atmo, BCPoint, Calculator, DragModel, PreferredUnits, Shot, Sight, Unit,
                              UnitConversionError, Weapon, Wind)

from vf import refs_si as si
from vf.build import reset_globals

ID = "C13"
RULE = ("random histories (length 50-400) over a pool of 30 quantities covering all 7 dimensions and 41 units "
        "(magnitudes 0, negative, tiny, huge, duplicates of equal magnitude in other units); ops: <<, >>, convert, "
        "get_in, units, unit_value, str, repr, float, hash, six comparisons with pooled quantities / int / float, "
        "Unit.X(q), PreferredUnits.slot(q), foreign-unit reads, passing as argument to library constructors and "
        "fire/danger_space; a case = one history (seed-derived op list); non-trivial when it contains a display-unit "
        "change followed by a read, hash or comparison")
MUST_OBSERVE = ["foreign_unit_code_equals_a_reading", "neighbour_comparisons", "ops", "pool_rereads", "comparisons", "hash_checks", "foreign_reads_rejected", "library_calls",
                "display_unit_changes"]
ASSUMPTIONS = ["shadow values are the library's own answers recorded at construction (the property is about "
               "immutability over a history); agreement of those answers with SI is C06",
               "cross-dimension == between two quantities is not asserted either way (not part of the statement)"]

SLOTS = {"angular": "Angular", "distance": "Distance", "velocity": "Velocity", "pressure": "Pressure",
         "temperature": "Temperature", "diameter": "Distance", "length": "Distance", "weight": "Weight",
         "adjustment": "Angular", "drop": "Distance", "energy": "Energy", "ogw": "Weight",
         "sight_height": "Distance", "target_height": "Distance", "twist": "Distance"}
CMP = {"==": operator.eq, "!=": operator.ne, "<": operator.lt, "<=": operator.le, ">": operator.gt, ">=": operator.ge}


def budget(tier):
    return {"shards": 14, "deadline_s": 45 if tier == "quick" else 900}


_RAW_UNIT = {}


def raw_unit(dim):
    """The unit in which the library stores the dimension's magnitude (constructing in it keeps the number as it is), found by observation."""
    if dim not in _RAW_UNIT:
        _RAW_UNIT[dim] = next((u for u in si.DIMENSIONS[dim]
                               if all(bits(Unit[u](x).raw_value) == bits(x) for x in (1.2345, -7.5, 1e-9, 4000.125))), None)
    return _RAW_UNIT[dim]


def bits(x):
    return x.hex() if isinstance(x, float) else repr(x)


class Shadow:
    def __init__(self, dim, unit, x, q):
        self.dim, self.unit0, self.x = dim, unit, x
        self.raw = q.raw_value
        self.vals = {u: q.get_in(Unit[u]) for u in si.DIMENSIONS[dim]}
        self.display = unit            # model of the display unit (name) - may become a foreign unit
        self.hash0 = hash(q)


def make_pool(rng):
    pool = []
    dims = list(si.DIMENSIONS)
    while len(pool) < 30:
        dim = dims[len(pool) % len(dims)] if len(pool) < 14 else rng.choice(dims)
        unit = rng.choice(si.DIMENSIONS[dim])
        if dim == "Angular":
            lim = 1.4 if unit in si.TANGENT else 6.0
            x = si.from_base(dim, unit, rng.choice([0.0, rng.uniform(-lim, lim), 10 ** rng.uniform(-7, -1)]))
        elif dim == "Temperature":
            x = si.from_base(dim, unit, rng.choice([273.15, rng.uniform(180, 350)]))
        else:
            x = rng.choice([0.0, 1.0, -2.5, 10 ** rng.uniform(-6, 6), -(10 ** rng.uniform(-3, 3)), float(rng.randint(1, 500))])
            if rng.random() < 0.25:
                # a magnitude whose number, in some everyday unit, coincides with the integer code of a unit of another dimension
                # (Unit is an IntEnum: 30 = FootPound, 60 = MPS, 70 = Grain ...) - a number is never a unit
                unit = rng.choice([u for u in ("Foot", "Yard", "Inch", "FPS", "MPS", "InHg", "hPa", "Grain", "Pound", "FootPound") if u in si.DIMENSIONS[dim]] or [unit])
                x = float(int(rng.choice([u for u in Unit if u.name not in si.DIMENSIONS[dim]])))
        q = Unit[unit](x)
        pool.append((q, Shadow(dim, unit, x, q)))
        # an equal-magnitude twin in another unit, built by conversion (same raw value by construction of << / copy)
        if rng.random() < 0.35 and len(pool) < 30:
            other = rng.choice(si.DIMENSIONS[dim])
            twin = getattr(pb, dim)(x, Unit[unit])
            twin << Unit[other]       # pylint: disable=pointless-statement
            sh = Shadow(dim, unit, x, twin)
            sh.display = other
            pool.append((twin, sh))
    return pool


def reread(ctx, pool, case, after):
    """Every pooled quantity must still report exactly what it reported at construction."""
    for idx, (q, sh) in enumerate(pool):
        ctx.count("pool_rereads")
        if bits(q.raw_value) != bits(sh.raw):
            ctx.violation("magnitude.raw-changed", f"raw_value of pool[{idx}] changed {sh.raw!r} -> {q.raw_value!r} after {after}",
                          case, idx=idx)
            sh.raw = q.raw_value
        for u, v in sh.vals.items():
            got = q.get_in(Unit[u])
            if bits(got) != bits(v):
                ctx.violation("magnitude.get_in-changed",
                              f"pool[{idx}] ({sh.x!r} {sh.unit0}) in {u}: {v!r} at construction, {got!r} after {after}",
                              case, idx=idx, unit=u)
                sh.vals[u] = got
        h = hash(q)
        if h != sh.hash0:
            ctx.violation("hash.changed", f"hash of pool[{idx}] changed after {after} (display unit {sh.display})", case, idx=idx)
            sh.hash0 = h


def expect_conversion_error(ctx, fn, what, case):
    try:
        val = fn()
    except UnitConversionError:
        ctx.count("foreign_reads_rejected")
        return
    except Exception as exc:  # pylint: disable=broad-except
        ctx.violation("foreign.other-exception", f"{what} raised {type(exc).__name__} instead of UnitConversionError", case)
        return
    ctx.violation("foreign.returned-number", f"{what} returned {val!r} instead of raising UnitConversionError", case)


def library_call(ctx, rng, pool, case):
    """Pass pooled quantities as arguments to library calls (they re-label display units; magnitude must survive)."""
    def pick(dim, pred=lambda sh: True):
        c = [(q, sh) for q, sh in pool if sh.dim == dim and sh.display in si.DIMENSIONS[dim] and pred(sh)]
        return rng.choice(c) if c else (None, None)

    kind = rng.choice(["atmo", "wind", "weapon", "dragmodel", "bcpoint", "sight", "fire"])
    touched = []
    try:
        if kind == "atmo":
            alt, s1 = pick("Distance", lambda sh: -1000 < sh.raw < 120000)
            pr, s2 = pick("Pressure", lambda sh: 300 < sh.raw < 900)
            tp, s3 = pick("Temperature", lambda sh: -100 < sh.raw < 140)
            Atmo(altitude=alt, pressure=pr, temperature=tp, humidity=30, powder_t=tp)
            touched = [(s1, "distance"), (s2, "pressure"), (s3, "temperature")]
        elif kind == "wind":
            v, s1 = pick("Velocity")
            d, s2 = pick("Angular")
            u, s3 = pick("Distance")
            Wind(v, d, u)
            touched = [(s1, "velocity"), (s2, "angular"), (s3, "distance")]
        elif kind == "weapon":
            a, s1 = pick("Distance")
            b, s2 = pick("Distance")
            z, s3 = pick("Angular")
            Weapon(a, b, z)
            touched = [(s1, "sight_height"), (s2, "twist"), (s3, "angular")]
        elif kind == "dragmodel":
            w, s1 = pick("Weight")
            d, s2 = pick("Distance")
            ln, s3 = pick("Distance")
            DragModel(0.3, pb.TableG7, w, d, ln)
            # order inside DragModel: length, weight, diameter
            touched = [(s3, "length"), (s1, "weight"), (s2, "diameter")]
        elif kind == "bcpoint":
            v, s1 = pick("Velocity", lambda sh: sh.raw > 0)
            if v is not None:
                BCPoint(0.3, V=v)
                touched = [(s1, "velocity")]
        elif kind == "sight":
            sc, s1 = pick("Distance", lambda sh: sh.raw > 0)
            c1, s2 = pick("Angular", lambda sh: sh.raw > 0)
            c2, s3 = pick("Angular", lambda sh: sh.raw > 0)
            if sc is not None and c1 is not None:
                Sight("SFP", sc, c1, c2)
                touched = [(s1, "distance"), (s2, "adjustment"), (s3, "adjustment")]
        elif kind == "fire":
            mv, s1 = pick("Velocity", lambda sh: 200 < sh.raw < 1200)
            rng_, s2 = pick("Distance", lambda sh: 600 < sh.raw < 12000)
            look, s3 = pick("Angular", lambda sh: abs(sh.raw) < 0.5)
            if mv is not None and rng_ is not None and look is not None:
                shot = Shot(Weapon(), Ammo(DragModel(0.3, pb.TableG1), mv), look_angle=look)
                touched = [(s1, "velocity"), (s3, "angular"), (s2, "distance")]
                try:
                    res = Calculator().fire(shot, rng_, extra_data=True)
                    res.danger_space(rng_, rng_)
                    touched.append((s2, "distance"))
                except (pb.RangeError, ArithmeticError):
                    pass
    except (ZeroDivisionError, ValueError, TypeError, OverflowError) as exc:
        ctx.count("library_calls_raised_" + type(exc).__name__)
    ctx.count("library_calls")
    ctx.count("library_call_" + kind)
    # library calls may re-label the display unit of what they are handed (the statement allows exactly that):
    # resynchronise the model's display unit, never the magnitudes
    for q, sh in pool:
        sh.display = q.units.name
    return kind


def run_history(ctx, seed_case):
    import random
    rng = random.Random(seed_case["history_seed"])
    reset_globals()
    # a random preferred-unit assignment, so that library calls really re-label
    for slot, dim in SLOTS.items():
        setattr(PreferredUnits, slot, Unit[rng.choice(si.DIMENSIONS[dim])])
    pool = make_pool(rng)
    n_ops = seed_case["length"]
    nontrivial = False
    changed_display = False
    case = dict(seed_case)
    oplog = []
    for step in range(n_ops):
        q, sh = rng.choice(pool)
        own = si.DIMENSIONS[sh.dim]
        foreign_dim = rng.choice([d for d in si.DIMENSIONS if d != sh.dim])
        foreign = rng.choice(si.DIMENSIONS[foreign_dim])
        # where one of the quantity's own readings is a whole number that is also the code of a foreign unit, prefer that unit
        colliding = [u.name for u in Unit if u.name not in own and any(v == int(u) for v in sh.vals.values())]
        if colliding and rng.random() < 0.7:
            foreign = rng.choice(colliding)
            foreign_dim = next(d for d, us in si.DIMENSIONS.items() if foreign in us)
            ctx.count("foreign_unit_code_equals_a_reading")
        op = rng.choice(["lshift", "convert", "unitcall", "slot", "rshift", "get_in", "units", "unit_value", "str",
                         "repr", "float", "hash", "cmp_q", "cmp_num", "eqhash", "foreign_read", "foreign_label",
                         "foreign_ctor", "library", "relabel_own", "foreign_unitcall", "foreign_argument", "neighbours"])
        ctx.count("ops")
        ctx.count("op_" + op)
        oplog.append(op)
        after = f"op#{step} {op}"
        if op in ("lshift", "convert", "unitcall", "relabel_own"):
            u = rng.choice(own)
            res = (q << Unit[u]) if op == "lshift" else q.convert(Unit[u]) if op == "convert" else Unit[u](q)
            # whether the conversion re-labels q itself or hands out a new object is not part of the statement (the code does
            # the former, convert()'s docstring promises the latter): the *result* must display in u with the same magnitude
            sh.display = q.units.name
            changed_display = True
            ctx.count("display_unit_changes")
            if res.units.name != u:
                ctx.violation("convert.result-unit", f"{op} to {u} returned a quantity displaying in {res.units.name}", case)
            if bits(res.raw_value) != bits(sh.raw) or bits(res.unit_value) != bits(sh.vals[u]):
                ctx.violation("convert.magnitude", f"{op} to {u} returned a quantity of different magnitude", case)
        elif op == "slot":
            slots = [s for s, d in SLOTS.items() if d == sh.dim]
            s = rng.choice(slots)
            res = getattr(PreferredUnits, s)(q)
            sh.display = q.units.name
            if res.units is not getattr(PreferredUnits, s) or bits(res.raw_value) != bits(sh.raw):
                ctx.violation("convert.result-unit", f"PreferredUnits.{s}(q) returned {res.units.name} / magnitude {res.raw_value!r}", case)
            changed_display = True
            ctx.count("display_unit_changes")
        elif op in ("rshift", "get_in"):
            u = rng.choice(own)
            got = (q >> Unit[u]) if op == "rshift" else q.get_in(Unit[u])
            nontrivial |= changed_display
            if bits(got) != bits(sh.vals[u]):
                ctx.violation("magnitude.read", f"{op} {u}: {got!r}, at construction {sh.vals[u]!r}", case)
        elif op == "units":
            if q.units.name != sh.display:
                ctx.violation("units.model", f"units reports {q.units.name}, last conversion was to {sh.display}", case)
        elif op in ("unit_value", "str", "repr"):
            fn = {"unit_value": lambda: q.unit_value, "str": lambda: str(q), "repr": lambda: repr(q)}[op]
            if sh.display in own:
                val = fn()
                nontrivial |= changed_display
                if op == "unit_value" and bits(val) != bits(sh.vals[sh.display]):
                    ctx.violation("magnitude.unit_value", f"unit_value {val!r} != value in {sh.display} at construction "
                                                          f"{sh.vals[sh.display]!r}", case)
                if op == "str":
                    u = Unit[sh.display]
                    want = f"{round(sh.vals[sh.display], u.accuracy)}{u.symbol}"
                    if val != want:
                        ctx.violation("str.value", f"str gives {val!r}, expected {want!r}", case)
            else:
                expect_conversion_error(ctx, fn, f"{op} of a {sh.dim} labelled {sh.display}", case)
        elif op == "float":
            if bits(float(q)) != bits(float(sh.raw)):
                ctx.violation("magnitude.float", f"float() {float(q)!r} != raw {sh.raw!r}", case)
        elif op == "hash":
            ctx.count("hash_checks")
            nontrivial |= changed_display
            if hash(q) != sh.hash0:
                ctx.violation("hash.changed", f"hash changed (display unit now {sh.display}, built as {sh.unit0})", case)
        elif op == "eqhash":
            same = [(q2, s2) for q2, s2 in pool if s2.dim == sh.dim and s2.raw == sh.raw and q2 is not q]
            for q2, s2 in same:
                ctx.count("hash_checks")
                ctx.count("equal_pairs_hashed")
                if not q == q2:
                    ctx.violation("eq.equal-magnitude", "quantities of equal raw magnitude compare unequal", case)
                if hash(q) != hash(q2):
                    ctx.violation("hash.equal-differ", f"equal quantities hash differently (display {sh.display} vs {s2.display})", case)
                if len({q, q2}) != 1:
                    ctx.violation("hash.set-membership", "two equal quantities are distinct members of a set", case)
        elif op == "cmp_q":
            q2, s2 = rng.choice([p for p in pool if p[1].dim == sh.dim])
            name = rng.choice(list(CMP))
            ctx.count("comparisons")
            nontrivial |= changed_display
            want = CMP[name](sh.raw, s2.raw)
            try:
                got = CMP[name](q, q2)
            except Exception as exc:  # pylint: disable=broad-except
                got = None
                if sh.display not in own or s2.display not in own:
                    ctx.count("comparisons_raised_under_foreign_label")     # an operand carries a label of another dimension: not judged
                else:
                    ctx.violation("compare.raised", f"({sh.x!r} {sh.unit0}, displayed in {sh.display}) {name} ({s2.x!r} {s2.unit0}, displayed in "
                                                    f"{s2.display}) raised {type(exc).__name__}: {str(exc)[:80]}", case)
            if got is not None and bool(got) != want:
                ctx.violation("compare.quantity", f"({sh.x!r} {sh.unit0}) {name} ({s2.x!r} {s2.unit0}) gave {got}, "
                                                  f"raw magnitudes say {want}", case)
        elif op == "neighbours":
            # companions built in the dimension's base unit: one ulp away, slightly away and - for angles - whole turns away.
            # Their magnitudes differ from q's, so every comparison must say so, whatever q displays in.
            ru = raw_unit(sh.dim)
            if ru is not None and math.isfinite(sh.raw) and abs(sh.raw) < 1e300:
                deltas = [math.nextafter(sh.raw, math.inf) - sh.raw, -(sh.raw - math.nextafter(sh.raw, -math.inf)),
                          abs(sh.raw) * 3e-13 + 1e-13, -(abs(sh.raw) * 1e-9 + 1e-9)]
                if sh.dim == "Angular":
                    deltas += [2 * math.pi * k for k in (1, -1, 2, -3)]
                for d in deltas:
                    raw2 = sh.raw + d
                    q2 = Unit[ru](raw2)
                    if bits(q2.raw_value) != bits(raw2):
                        continue                     # the constructor normalised the companion (Angular beyond a turn in some units): not usable
                    ctx.count("neighbour_comparisons")
                    for name, fn in CMP.items():
                        want = fn(sh.raw, raw2)
                        try:
                            got, got_r = fn(q, q2), fn(q2, q)
                        except Exception as exc:  # pylint: disable=broad-except
                            if sh.display not in own:
                                ctx.count("comparisons_raised_under_foreign_label")
                                break
                            ctx.violation("compare.raised", f"({sh.x!r} {sh.unit0}) {name} a companion of magnitude {raw2!r} raised {type(exc).__name__}", case)
                            break
                        if bool(got) != want or bool(got_r) != fn(raw2, sh.raw):
                            ctx.violation("compare.neighbour", f"({sh.x!r} {sh.unit0}, base-unit magnitude {sh.raw!r}, displayed in {sh.display}) {name} "
                                                               f"(a {sh.dim} of base-unit magnitude {raw2!r}) gave {got} / reversed {got_r}; "
                                                               f"the magnitudes say {want} / {fn(raw2, sh.raw)}", case)
                            break
        elif op == "cmp_num":
            num = rng.choice([0, 1, -1, sh.raw, int(sh.raw) if math.isfinite(sh.raw) and abs(sh.raw) < 1e15 else 0,
                              sh.raw * (1 + 1e-12), rng.uniform(-10, 10)])
            name = rng.choice(list(CMP))
            ctx.count("comparisons")
            got, want = CMP[name](q, num), CMP[name](sh.raw, num)
            got_r, want_r = CMP[name](num, q), CMP[name](num, sh.raw)
            if bool(got) != want or bool(got_r) != want_r:
                ctx.violation("compare.number", f"({sh.x!r} {sh.unit0}) {name} {num!r}: {got}/{got_r}, raw says {want}/{want_r}", case)
        elif op == "foreign_read":
            which = rng.choice([">>", "get_in"])
            expect_conversion_error(ctx, (lambda: q >> Unit[foreign]) if which == ">>" else (lambda: q.get_in(Unit[foreign])),
                                    f"{sh.dim} {which} {foreign}", case)
        elif op == "foreign_label":
            # << does not validate; the statement only requires that *reading* in the foreign unit never yields a number
            try:
                q << Unit[foreign]   # pylint: disable=pointless-statement
            except UnitConversionError:
                ctx.count("foreign_labels_rejected")      # a library that validates the label: equally fine, nothing was relabelled
            else:
                sh.display = foreign
                changed_display = True
                ctx.count("display_unit_changes")
                expect_conversion_error(ctx, lambda: q.unit_value, f"unit_value of a {sh.dim} labelled {foreign}", case)
        elif op == "foreign_unitcall":
            # Unit.X(q) / PreferredUnits.slot(q) with q of another dimension: whatever comes back must not read as a number
            via_slot = rng.random() < 0.4
            try:
                if via_slot:
                    slot = rng.choice([s for s, d in SLOTS.items() if d == foreign_dim])
                    res = getattr(PreferredUnits, slot)(q)
                    target = getattr(PreferredUnits, slot)
                else:
                    res = Unit[foreign](q)
                    target = Unit[foreign]
            except UnitConversionError:
                ctx.count("foreign_reads_rejected")
                res = None
            sh.display = q.units.name
            changed_display = True
            ctx.count("display_unit_changes")
            if res is not None:
                for what, fn in (("unit_value", lambda: res.unit_value), (">>", lambda: res >> target), ("str", lambda: str(res))):
                    expect_conversion_error(ctx, fn, f"{what} of {'PreferredUnits.slot' if via_slot else 'Unit.' + target.name}({sh.dim} quantity)", case)
        elif op == "foreign_argument":
            # a quantity of the wrong dimension handed to a library constructor: reading the stored field must raise
            try:
                if foreign_dim == "Distance":
                    obj, field, unit = Atmo(altitude=q), "altitude", Unit.Foot
                elif foreign_dim == "Velocity":
                    obj, field, unit = Wind(velocity=q), "velocity", Unit.FPS
                elif foreign_dim == "Angular":
                    obj, field, unit = Weapon(zero_elevation=q), "zero_elevation", Unit.Radian
                elif foreign_dim == "Temperature":
                    obj, field, unit = Ammo(DragModel(0.3, pb.TableG7), 800, powder_temp=q), "powder_temp", Unit.Celsius
                else:
                    obj = None
            except (UnitConversionError, ZeroDivisionError, ValueError, TypeError, OverflowError):
                ctx.count("foreign_reads_rejected")
                obj = None
            sh.display = q.units.name          # the constructor may have re-labelled its argument before refusing it
            if obj is not None:
                stored = getattr(obj, field)
                expect_conversion_error(ctx, lambda: stored >> unit, f"{type(obj).__name__}.{field} built from a {sh.dim} quantity, read in {unit.name}", case)
        elif op == "foreign_ctor":
            cls = getattr(pb, sh.dim)
            expect_conversion_error(ctx, lambda: cls(1.5, Unit[foreign]), f"{sh.dim}(1.5, {foreign})", case)
        elif op == "library":
            after += ":" + library_call(ctx, rng, pool, case)
            changed_display = True
        reread(ctx, pool, case, after)
    case["ops_head"] = oplog[:25]
    ctx.case(case, nontrivial=nontrivial)
    reset_globals()


def run(ctx):
    total = 1400 if ctx.tier == "quick" else 60000
    for i in range(ctx.share(total)):
        if not ctx.time_left():
            break
        run_history(ctx, {"history_seed": ctx.rng.getrandbits(48), "length": ctx.rng.choice([50, 100, 200, 400])})


def replay(ctx, case):
    run_history(ctx, {"history_seed": case["history_seed"], "length": case["length"]})
