"""C12 - wind acts by segment, in order of distance, symmetrically and causally.

Monitor shape: exact metamorphic relations between runs of the real solver on related wind lists (bit equality),
sign relations against the no-wind twin, and the R-ODE reference for where segments begin and end."""
import math

import py_ballisticcalc as pb
from py_ballisticcalc import Angular, Distance, Velocity

from vf import build, gen, monitors, refs

ID = "C12"
RULE = ("random shots (twist 0) with 1-4 wind segments (speeds 0-60 ft/s, opposing strong segments, directions on and off "
        "the axes, until-distances inside/at/beyond the range, unsorted, duplicates); relations: permutation (distinct "
        "until-distances), zero-speed == none, appended zero wind, split segment, causality beyond D, left-right mirror, "
        "signs vs the no-wind twin, and windage at every row against the RK4 reference; a case = (shot, relation); "
        "non-trivial when at least one wind with non-zero speed switches inside the range")
MUST_OBSERVE = ["rel_other_windless_shot_edited", "shots_with_relabelled_winds", "rel_max_distance_keyword", "relations_checked", "rel_setter", "rel_permutation", "rel_zero_speed", "rel_append_zero", "rel_split", "rel_causality",
                "rel_mirror", "rel_sign_cross", "rel_sign_head_tail", "rel_reference", "reference_rows", "switch_inside_range",
                "rel_differs_after_switch", "sign_drop_rows_judged", "cases_with_debug_logging_on", "cases_under_other_preferred_units"]
ASSUMPTIONS = ["permutation is only required when all until-distances are distinct (ties have no defined order)",
               "reference comparison tolerance: 3 x the change seen when the solver's step is halved (its own first-order error) + "
               "0.02 ft + 0.2 % of the windage (reference error, a wind switch taking effect up to one step late); a wrong segment "
               "is off by feet"]


def budget(tier):
    return {"shards": 14, "deadline_s": 75 if tier == "quick" else 1500}


def rows_of(spec, r_ft, step_ft):
    with monitors.quiet():
        try:
            return [row_tuple(r) for r in build.calculator().fire(build.shot(spec), Distance.Foot(r_ft), Distance.Foot(step_ft))], False
        except pb.RangeError as err:
            return [row_tuple(r) for r in err.incomplete_trajectory], True


def row_tuple(r):
    return (r.distance.raw_value, r.time, r.height.raw_value, r.windage.raw_value, r.velocity.raw_value, r.mach,
            r.angle.raw_value, r.target_drop.raw_value, r.energy.raw_value)


NAMES = ("distance", "time", "height", "windage", "velocity", "mach", "angle", "target_drop", "energy")


def first_diff(a, b, upto_in=None):
    for i, (ra, rb) in enumerate(zip(a, b)):
        if upto_in is not None and ra[0] > upto_in:
            return None
        for n, x, y in zip(NAMES, ra, rb):
            if x != y and not (x == 0 and y == 0):
                return i, n, x, y
    if upto_in is None and len(a) != len(b):
        return min(len(a), len(b)), "row count", len(a), len(b)
    return None


def check_case(ctx, case):
    monitors.reset_all()
    try:
        if case.get("prefs"):
            # the session prefers other units; every wind below is built from explicit quantities, so nothing may change
            for slot, unit in case["prefs"].items():
                setattr(pb.PreferredUnits, slot, pb.Unit[unit])
            ctx.count("cases_under_other_preferred_units")
        if case.get("debug"):
            pb.set_debug(True)      # the library's public debug-logging switch stays on for the whole case: what is logged is not what is computed
            ctx.count("cases_with_debug_logging_on")
        _check_case(ctx, case)
    finally:
        if pb.get_debug():
            pb.set_debug(False)
        pb.PreferredUnits.defaults()


def _check_case(ctx, case):
    spec, r_ft, step = case["shot"], case["range_ft"], case["step_ft"]
    winds = spec["winds"]
    base, base_raised = rows_of(spec, r_ft, step)
    if spec.get("relabel_seed") is not None:
        ctx.count("shots_with_relabelled_winds")
    untils = [1e8 if w[2] is None else w[2] for w in winds]
    inside = any(w[0] > 0 and u < r_ft for w, u in zip(winds, untils))
    if inside:
        ctx.count("switch_inside_range")

    def rel(name, other_spec, cmp, **info):
        ctx.count("relations_checked")
        ctx.count("rel_" + name)
        c = dict(case, relation=name, other_winds=other_spec.get("winds"), **info)
        ctx.case(c, nontrivial=inside or name.startswith("sign"))
        other, _ = rows_of(other_spec, r_ft, step)
        msg = cmp(other)
        if msg:
            ctx.violation(name, msg, c)

    def exact(other, upto_in=None):
        d = first_diff(base, other, upto_in)
        if d:
            return f"row {d[0]} {d[1]}: {d[2]!r} with the given winds, {d[3]!r} with the related list"
        return None

    # 0 constructor vs setter, and the three spellings of "no wind"
    ctx.count("relations_checked")
    ctx.count("rel_setter")
    with monitors.quiet():
        sh = build.shot(dict(spec, winds=[]))
        sh.winds = build.winds(winds)
        try:
            via_setter = [row_tuple(r) for r in build.calculator().fire(sh, Distance.Foot(r_ft), Distance.Foot(step))]
        except pb.RangeError as err:
            via_setter = [row_tuple(r) for r in err.incomplete_trajectory]
        sh.winds = None
        try:
            cleared = [row_tuple(r) for r in build.calculator().fire(sh, Distance.Foot(r_ft), Distance.Foot(step))]
        except pb.RangeError as err:
            cleared = [row_tuple(r) for r in err.incomplete_trajectory]
    cset = dict(case, relation="setter")
    ctx.case(cset, nontrivial=inside, sample=False)
    d = first_diff(base, via_setter)
    if d:
        ctx.violation("setter", f"winds assigned through Shot.winds differ from winds given to the constructor: row {d[0]} {d[1]} {d[2]!r} vs {d[3]!r}", cset)
    # 0b a maximum distance beyond each wind's own until-distance is inert
    if spec.get("wind_max_factor") and any(w[2] is not None for w in winds):
        rel("max_distance_keyword", {k: v for k, v in spec.items() if k != "wind_max_factor"}, exact)
    # 1 permutation
    if len(winds) >= 2 and len(set(untils)) == len(untils):
        perm = list(reversed(winds)) if case["perm"] == "reverse" else winds[1:] + winds[:1]
        rel("permutation", dict(spec, winds=perm), exact)
    # 2 zero-speed winds == no wind == None
    zero = [[0.0, w[1], w[2]] for w in winds] or [[0.0, 123.0, None]]
    none_rows, _ = rows_of(dict(spec, winds=[]), r_ft, step)
    ctx.count("relations_checked")
    ctx.count("rel_zero_speed")
    zr, _ = rows_of(dict(spec, winds=zero), r_ft, step)
    c0 = dict(case, relation="zero_speed", other_winds=zero)
    ctx.case(c0, nontrivial=True, sample=False)
    d = first_diff(none_rows, cleared)
    if d:
        ctx.violation("zero_speed", f"Shot.winds = None differs from winds=[]: row {d[0]} {d[1]} {d[2]!r} vs {d[3]!r}", dict(case, relation="cleared"))
    d = first_diff(none_rows, zr)
    if d:
        ctx.violation("zero_speed", f"zero-speed winds differ from no wind: row {d[0]} {d[1]} {d[2]!r} vs {d[3]!r}", c0)
    if case.get("edit_other_windless_shot"):
        # another shot that was never given a wind has its calm placeholder edited through the public attributes; shots
        # without wind - built before or after - must stay without wind
        ctx.count("relations_checked")
        ctx.count("rel_other_windless_shot_edited")
        with monitors.quiet():
            earlier = build.shot(dict(spec, winds=[]))
            other = build.shot(dict(spec, winds=[]))
            for w in other.winds:
                w.velocity, w.direction_from = pb.Velocity.FPS(45.0), pb.Angular.Degree(90.0)
            later = build.shot(dict(spec, winds=[]))
            later.winds = None
            for name, sh in (("built before", earlier), ("built afterwards", later)):
                try:
                    rows = [row_tuple(r) for r in build.calculator().fire(sh, Distance.Foot(r_ft), Distance.Foot(step))]
                except pb.RangeError as err:
                    rows = [row_tuple(r) for r in err.incomplete_trajectory]
                d = first_diff(none_rows, rows)
                if d:
                    ctx.violation("zero_speed", f"a shot without wind ({name}) is blown by the wind set on another windless shot's placeholder: "
                                                f"row {d[0]} {d[1]} {d[2]!r} vs {d[3]!r}", dict(case, relation="other_windless_shot_edited"))
                    break
    # 3 explicit zero wind after the last segment
    if winds and max(untils) < 1e8:
        rel("append_zero", dict(spec, winds=winds + [[0.0, 77.0, None]]), exact)
    # 4 split a segment
    if winds:
        order = sorted(range(len(winds)), key=lambda i: untils[i])
        k = order[case["split_idx"] % len(order)]
        pos = order.index(k)
        lo = untils[order[pos - 1]] if pos else 0.0
        hi = min(untils[k], 3 * r_ft)
        if hi - lo > 2.0:
            mid = round(lo + (hi - lo) * case["split_frac"], 3)
            if lo < mid < hi and mid not in untils:
                split = list(winds) + [[winds[k][0], winds[k][1], mid]]
                rel("split", dict(spec, winds=split), exact, split_at=mid)
    # 5 causality: change / add segments that begin at or beyond D
    if winds:
        order = sorted(range(len(winds)), key=lambda i: untils[i])
        cut = order[case["cause_idx"] % len(order)]
        d_ft = untils[cut]
        if d_ft < r_ft:
            keep = [w for w, u in zip(winds, untils) if u <= d_ft]
            later = [[case["cause_speed"], case["cause_dir"], None]] if case["cause_add"] else []
            changed = keep + later
            d_in = Distance.Foot(d_ft).raw_value
            rel("causality", dict(spec, winds=changed), lambda other: exact(other, upto_in=d_in), boundary_ft=d_ft)
            # and the wind lists really differ beyond D (sanity: the relation is not vacuous)
            def wind_at(ws, x):
                for until, vec in refs.wind_segments({"winds": ws}):
                    if x < until:
                        return vec
                return (0.0, 0.0, 0.0)
            grid = [d_ft + (r_ft - d_ft) * j / 20.0 for j in range(1, 12)]
            differing = [x for x in grid if math.dist(wind_at(winds, x), wind_at(changed, x)) > 1.0]
            if len(differing) >= 4:
                other, _ = rows_of(dict(spec, winds=changed), r_ft, step)
                beyond = [(a, b) for a, b in zip(base, other) if a[0] > 12 * differing[3]]
                if beyond:
                    ctx.count("rel_differs_after_switch")
                    if all(a[3] == b[3] and a[1] == b[1] for a, b in beyond):
                        ctx.violation("segment-has-no-effect", f"different winds beyond {d_ft} ft give identical rows beyond it",
                                      dict(case, relation="differs_after", other_winds=changed))
    # 6 mirror (cant 0, twist 0 => spin drift and lateral sight offset are zero)
    if spec.get("cant_deg", 0.0) == 0.0 and winds:
        mirrored = [[w[0], (360.0 - w[1]) % 360.0, w[2]] for w in winds]

        def cmp_mirror(other):
            for i, (a, b) in enumerate(zip(base, other)):
                for n, x, y in zip(NAMES, a, b):
                    if n == "windage":
                        if not abs(x + y) <= 1e-9 * max(abs(x), abs(y)) + 1e-9:
                            return f"row {i}: windage {x!r} in, mirrored winds give {y!r} in (not the negative)"
                    elif not abs(x - y) <= 1e-9 * max(abs(x), abs(y)) + 1e-12:
                        return f"row {i}: {n} {x!r} vs {y!r} under mirrored winds"
            return None if len(base) == len(other) else "row counts differ under mirrored winds"
        rel("mirror", dict(spec, winds=mirrored), cmp_mirror)
    # 7 signs against the no-wind twin (single constant wind over the whole range)
    sp = case["sign_speed"]
    for name, direction in (("sign_cross", 90.0), ("sign_cross", 270.0), ("sign_head_tail", 0.0), ("sign_head_tail", 180.0)):
        ctx.count("relations_checked")
        ctx.count("rel_" + name)
        # horizontal bore: the projectile never climbs, so drag has no downward component and the classical flat-fire
        # statement applies (on a climbing leg a tail wind tilts the drag vector downward and the sign of the height
        # change at a given distance reverses - a property of the model, not a defect)
        flat = {"cant_deg": 0.0, "look_deg": 0.0, "rel_deg": 0.0, "zero_deg": 0.0}
        # ... and a shipped table: the claim presupposes that drag force grows with air speed, which an arbitrary
        # custom table (Cd falling faster than 1/M^2) need not satisfy
        if not isinstance(spec["table"], str):
            flat["table"] = "G1"
        w_spec = dict(spec, winds=[[sp, direction, None]], **flat)
        nw_spec = dict(spec, winds=[], **flat)
        a, ra = rows_of(w_spec, r_ft, step)
        b, rb = rows_of(nw_spec, r_ft, step)
        cs = dict(case, relation=name, direction=direction)
        ctx.case(cs, nontrivial=True, sample=False)
        for i, (x, y) in enumerate(zip(a, b)):
            if i == 0 or x[0] != y[0]:
                continue
            if (ra and i == len(a) - 1) or (rb and i == len(b) - 1):
                continue
            if direction == 90.0 and not x[3] > y[3]:
                ctx.violation("sign.cross", f"wind from the left (90 deg): windage {x[3]!r} in not to the right of no-wind {y[3]!r} in (row {i})", cs)
                break
            if direction == 270.0 and not x[3] < y[3]:
                ctx.violation("sign.cross", f"wind from the right (270 deg): windage {x[3]!r} in not to the left of no-wind {y[3]!r} in (row {i})", cs)
                break
            if direction in (0.0, 180.0):
                # The solver's own first-order error in height is -g t dt/2 with dt = calc_step/|v - w|, so it differs
                # between the wind and the no-wind run by g t |d dt|/2; near the muzzle that exceeds the physical effect
                # (which grows like t^3).  The drop sign is only judged where the observed difference is 3x above it.
                v_fps = y[4] * 3.2808399
                ddt = 0.25 * abs(1.0 / max(1.0, v_fps - sp) - 1.0 / max(1.0, v_fps + sp))
                noise_in = 12.0 * 32.17405 * y[1] * ddt / 2.0
                judge_drop = abs(x[2] - y[2]) > 3.0 * noise_in
                ctx.count("sign_drop_rows_judged" if judge_drop else "sign_drop_rows_below_discretisation_noise")
                if direction == 0.0 and not (x[1] < y[1] and (x[2] > y[2] or not judge_drop)):
                    ctx.violation("sign.tail", f"tail wind: time {x[1]!r} vs {y[1]!r}, height {x[2]!r} vs {y[2]!r} in (row {i}); expected shorter time, less drop", cs)
                    break
                if direction == 180.0 and not (x[1] > y[1] and (x[2] < y[2] or not judge_drop)):
                    ctx.violation("sign.head", f"head wind: time {x[1]!r} vs {y[1]!r}, height {x[2]!r} vs {y[2]!r} in (row {i}); expected longer time, more drop", cs)
                    break
    # 8 reference for the segment boundaries
    if case.get("reference") and winds and not base_raised:
        ctx.count("relations_checked")
        ctx.count("rel_reference")
        shot = build.shot(spec)
        calc = build.calculator()
        tc = calc._calc  # pylint: disable=protected-access
        tc._init_trajectory(shot)  # pylint: disable=protected-access
        xs = [r[0] / 12.0 for r in base]
        alt0 = shot.atmo.altitude >> Distance.Foot
        with monitors.quiet():
            ref = refs.solve(spec, xs, shot.atmo.get_density_factor_and_mach_for_altitude, tc.drag_by_mach, alt0, h=0.2)
        cr = dict(case, relation="reference")
        ctx.case(cr, nontrivial=inside)
        # the solver's own first-order error, measured: the same shot at half the step
        with monitors.quiet():
            try:
                half = {row_tuple(r)[0]: row_tuple(r) for r in build.calculator({"max_calc_step_size_feet": 0.25}).fire(
                    build.shot(spec), Distance.Foot(r_ft), Distance.Foot(step))}
            except pb.RangeError:
                half = {}
        for r in base:
            st = ref.at.get(r[0] / 12.0)
            if st is None:
                continue
            ctx.count("reference_rows")
            z_ref, z = st[3], r[3] / 12.0
            hr = half.get(r[0])
            if hr is None:
                continue
            d_z, d_t = abs(z - hr[3] / 12.0), abs(r[1] - hr[1])
            ctx.max("reference_windage_err_over_tol", abs(z - z_ref) / (0.02 + 0.002 * abs(z_ref) + 3 * d_z))
            if not abs(z - z_ref) <= 0.02 + 0.002 * abs(z_ref) + 3 * d_z:
                ctx.violation("reference.windage", f"windage at {r[0] / 12.0:.1f} ft is {z:.4f} ft, point-mass reference with the winds applied by "
                                                   f"segment in order of distance gives {z_ref:.4f} ft", cr, distance_ft=r[0] / 12.0)
                break
            t_ref = st[0]
            ctx.max("reference_time_err_over_tol", abs(r[1] - t_ref) / (2e-4 * t_ref + 1e-5 + 3 * d_t))
            if not abs(r[1] - t_ref) <= 2e-4 * t_ref + 1e-5 + 3 * d_t:
                ctx.violation("reference.time", f"time at {r[0] / 12.0:.1f} ft is {r[1]!r} s, reference {t_ref!r} s", cr)
                break
    monitors.reset_all()


def gen_case(rng):
    s = gen.shot(rng, twist=False, custom=0.1, wind_n=0, look=rng.random() < 0.3, cant=rng.random() < 0.2)
    s["rel_deg"] = min(s["rel_deg"], 8.0)
    r_ft = rng.choice([600.0, 1200.0, 2400.0]) if s["mv_fps"] > 900 else rng.choice([300.0, 600.0])
    n = rng.choice([1, 2, 2, 3, 4])
    winds = []
    for i in range(n):
        speed = rng.choice([0.0, round(rng.uniform(2, 20), 2), round(rng.uniform(20, 60), 2), 60.0])
        direction = rng.choice([0.0, 90.0, 180.0, 270.0, round(rng.uniform(0, 360), 2)])
        if i and rng.random() < 0.4:    # opposing the previous one
            direction = (winds[-1][1] + 180.0) % 360.0
            speed = max(speed, 30.0)
        until = rng.choice([round(rng.uniform(20, r_ft), 1), round(rng.uniform(20, r_ft), 1), round(rng.uniform(r_ft, 2 * r_ft), 1), r_ft])
        winds.append([speed, direction, until])
    if rng.random() < 0.15 and len(winds) >= 2:
        winds[1][2] = winds[0][2]      # duplicate until-distance
    elif rng.random() < 0.15 and len(winds) >= 2 and winds[0][2] < r_ft:
        # ends that differ by a fraction of an inch (100 yd against 91.45 m): distinct, so their order is defined
        winds[1][2] = winds[0][2] + rng.choice([0.002, 0.01, 0.03])
        winds[1][0] = max(winds[1][0], 25.0)
        winds[1][1] = (winds[0][1] + 180.0) % 360.0
    if rng.random() < 0.4:
        winds[-1][2] = None
    rng.shuffle(winds)
    s["winds"] = winds
    if len(winds) >= 2 and rng.random() < 0.25:
        s["relabel_seed"] = rng.getrandbits(30)        # every wind's quantities displayed in other units (in place, magnitudes untouched)
    if rng.random() < 0.2:
        s["wind_max_factor"] = round(rng.uniform(1.05, 11.5), 3)     # every bounded wind also carries max_distance_feet = until x factor
    return {"shot": s, "range_ft": r_ft, "step_ft": r_ft / rng.choice([6, 12, 20]), "perm": rng.choice(["reverse", "rotate"]),
            "edit_other_windless_shot": rng.random() < 0.25,
            "split_idx": rng.randint(0, 3), "split_frac": round(rng.uniform(0.1, 0.9), 3), "cause_idx": rng.randint(0, 3),
            "cause_add": rng.random() < 0.7, "cause_speed": round(rng.uniform(5, 60), 2), "cause_dir": round(rng.uniform(0, 360), 1),
            "sign_speed": round(rng.uniform(3, 40), 2), "reference": rng.random() < 0.4,
            "debug": r_ft <= 1500.0 and rng.random() < 0.2,
            "prefs": ({"angular": rng.choice(["Radian", "Degree", "MOA", "Mil", "MRad", "Thousandth", "InchesPer100Yd", "CmPer100m", "OClock"]),
                       "velocity": rng.choice(["MPS", "KMH", "FPS", "MPH", "KT"]),
                       "distance": rng.choice(["Inch", "Foot", "Yard", "Mile", "Millimeter", "Centimeter", "Meter", "Kilometer"])}
                      if rng.random() < 0.3 else None)}


def run(ctx):
    total = 330 if ctx.tier == "quick" else 9000
    for _ in range(ctx.share(total)):
        if not ctx.time_left():
            break
        check_case(ctx, gen_case(ctx.rng))


def replay(ctx, case):
    case = {k: v for k, v in case.items() if k not in ("relation", "other_winds", "direction", "split_at", "boundary_ft")}
    if case.get("reference") is not None:
        case["reference"] = True
    check_case(ctx, case)
