"""C07 - preferred units only choose how bare numbers and output are read.

Monitor shape: (A) differential run of an all-explicit workload under the defaults, the three shipped presets and random
assignments of the 15 preferred-unit slots - every number in the result bit-identical; (B) bare-vs-explicit twin
construction at every float-or-quantity parameter - deep snapshots equal, or the same exception."""
import random

import py_ballisticcalc as pb
from py_ballisticcalc import (Ammo, Angular, Atmo, BCPoint, Calculator, Distance, DragModel, DragModelMultiBC,
                              PreferredUnits, Pressure, Shot, Sight, Temperature, Unit, Vacuum, Velocity, Weapon, Weight,
                              Wind, get_global_max_calc_step_size, loadImperialUnits, loadMetricUnits, loadMixedUnits,
                              reset_globals, set_global_max_calc_step_size)

from vf import build, gen, monitors
from vf import refs_si as si
from vf.snapshot import diff, snap, unhex

ID = "C07"
RULE = ("(A) random all-explicit workloads (multi-BC model from velocity points, calibrated powder sensitivity, station "
        "atmosphere with powder temperature, look/relative/cant, winds, zeroing, fire with extra data, danger space, "
        "FFP/SFP/LWIR click counts, Atmo.icao) each executed under defaults, 3 presets and random slot assignments; "
        "(B) every float-or-quantity parameter site x values {0, -0.0, 1, -3.5, 1e-3, 250, random} x random slot "
        "assignments, bare number vs slot_unit(number); a case = (workload, assignment) or (site, value, assignment); "
        "non-trivial when the assignment differs from the defaults")
MUST_OBSERVE = ["workloads", "assignments_compared", "preset_imperial", "preset_metric", "preset_mixed", "numbers_compared", "staged_sessions_compared",
                "sites_checked", "site_values_zero", "site_values_negative", "site_values_positive", "both_raised_same",
                "sfp_workloads", "sites_distinct", "winds_ended_by_max_distance_feet"]
ASSUMPTIONS = ["fire(trajectory_step=0) is the documented default 'no step given': bare 0 there is compared with omitting the "
               "argument, not with Distance(0)",
               "danger_space(target_height=bare) is accepted in either the distance or the target_height slot's unit (the "
               "statement does not say which slot that parameter belongs to)",
               "signed zeros are normalised in part B: '-0.0 or 0' legitimately yields +0, the magnitudes are equal"]
SLOTS = {"angular": "Angular", "distance": "Distance", "velocity": "Velocity", "pressure": "Pressure",
         "temperature": "Temperature", "diameter": "Distance", "length": "Distance", "weight": "Weight",
         "adjustment": "Angular", "drop": "Distance", "energy": "Energy", "ogw": "Weight", "sight_height": "Distance",
         "target_height": "Distance", "twist": "Distance"}


def budget(tier):
    return {"shards": 14, "deadline_s": 75 if tier == "quick" else 1500}


def assign(a):
    PreferredUnits.defaults()
    if a == "defaults":
        return
    if a in ("imperial", "metric", "mixed"):
        {"imperial": loadImperialUnits, "metric": loadMetricUnits, "mixed": loadMixedUnits}[a]()
        reset_globals()     # the preset files also carry a calculator step; part A is about units only
        return
    for slot, unit in a.items():
        setattr(PreferredUnits, slot, Unit[unit])


def random_assignment(rng):
    return {slot: rng.choice(si.DIMENSIONS[dim]) for slot, dim in SLOTS.items()}


# =============================================================================== part A
def workload(w, stages=None):
    """Everything explicit.  Returns a nested snapshot of every number produced.
    stages: assignments switched to, in turn, between construction / computation steps (a session whose preferred
    units change while objects are being built and used); None = one setting throughout."""
    s = w["shot"]
    out = {}
    turn = [0]

    def switch():
        if stages:
            assign(stages[turn[0] % len(stages)])
            turn[0] += 1
    switch()
    table = build.table(s["table"])
    pts = [BCPoint(bc, V=Velocity.MPS(v)) for bc, v in w["bc_points"]]
    dm = DragModelMultiBC(pts, table, Weight.Gram(w["weight_g"]), Distance.Millimeter(w["diameter_mm"]), Distance.Centimeter(w["length_cm"]))
    out["model"] = (dm.BC, [(p.Mach, p.CD) for p in dm.drag_table], snap(dm.weight), snap(dm.diameter), snap(dm.length))
    switch()
    ammo = Ammo(dm, Velocity.MPS(w["mv_mps"]), Temperature.Celsius(w["powder_c"]))
    out["powder_modifier"] = ammo.calc_powder_sens(Velocity.KMH(w["cal_v_kmh"]), Temperature.Kelvin(w["cal_t_k"]))
    ammo.use_powder_sensitivity = True
    switch()
    atmo = Atmo(Distance.Meter(w["alt_m"]), Pressure.MmHg(w["p_mmhg"]), Temperature.Rankin(w["t_r"]), w["rh"], Temperature.Fahrenheit(w["powder_f"]))
    out["atmo"] = (atmo.density_ratio, atmo._mach, atmo._t0, atmo._p0, atmo._a0, snap(atmo.powder_temp))  # pylint: disable=protected-access
    out["atmo_public"] = (snap(atmo.mach), snap(atmo.altitude), snap(atmo.pressure), snap(atmo.temperature), atmo.density_metric, atmo.density_imperial)
    out["icao"] = snap(Atmo.icao(Distance.Kilometer(w["alt_m"] / 1000.0)))
    switch()
    sight = Sight(w["plane"], Distance.Yard(w["scale_yd"]), Angular.MOA(w["h_click_moa"]), Angular.CmPer100m(w["v_click_cm100"]))
    weapon = Weapon(Distance.Centimeter(w["sight_cm"]), Distance.Millimeter(w["twist_mm"]), Angular.MRad(w["zero_mrad"]), sight)
    winds = []
    for sp, oc, until in w["winds"]:
        switch()
        winds.append(Wind(Velocity.KT(sp), Angular.OClock(oc), Distance.Meter(until)))
    if w.get("wind_max_ft"):
        # the rarely used keyword: the wind's default end, a number of feet by name and documentation
        switch()
        sp, oc, max_ft = w["wind_max_ft"]
        winds.append(Wind(Velocity.KT(sp), Angular.OClock(oc), max_distance_feet=max_ft))
        out["wind_end_from_max_distance_feet"] = (snap(winds[-1].until_distance), (winds[-1].until_distance >> Distance.Foot) - max_ft == 0
                                                  or abs((winds[-1].until_distance >> Distance.Foot) - max_ft) <= 1e-9 * max_ft)
    switch()
    shot = Shot(weapon, ammo, Angular.Thousandth(w["look_ths"]), Angular.InchesPer100Yd(w["rel_iphy"]), Angular.Degree(w["cant_deg"]), atmo, winds)
    calc = Calculator()
    switch()
    with monitors.quiet():
        try:
            out["zero"] = snap(calc.set_weapon_zero(shot, Distance.Meter(w["zero_m"])))
        except (pb.ZeroFindingError, pb.RangeError, ValueError, ZeroDivisionError) as e:
            out["zero"] = ("raise", type(e).__name__)
            return out
        switch()
        try:
            hit = calc.fire(shot, Distance.Mile(w["range_mi"]), Distance.Line(w["step_line"]), extra_data=True)
            rows = list(hit)
        except pb.RangeError as e:
            rows = list(e.incomplete_trajectory)
            hit = pb.HitResult(shot, rows, True)
            out["range_error"] = e.reason
    out["rows"] = [snap(r) for r in rows]
    with monitors.quiet():
        try:      # no step given: the default step must not depend on the preferred distance unit either
            out["rows_default_step"] = [snap(r) for r in calc.fire(shot, Distance.Meter(w["zero_m"]))]
        except pb.RangeError as e:
            out["rows_default_step"] = ("RangeError", e.reason, len(e.incomplete_trajectory))
    switch()
    try:
        ds = hit.danger_space(Distance.NauticalMile(w["ds_at_nmi"]), Distance.Foot(w["ds_h_ft"]), Angular.Mil(w["ds_look_mil"]))
        out["danger"] = (rows.index(ds.begin), rows.index(ds.end), rows.index(ds.at_range), snap(ds.target_height), snap(ds.look_angle))
    except ArithmeticError:
        out["danger"] = "ArithmeticError"
    out["clicks"] = [list(sight.get_trajectory_adjustment(r, w["mag"])) for r in rows[1::max(1, len(rows) // 6)] if r.distance.raw_value > 0]
    out["clicks_direct"] = list(sight.get_adjustment(Distance.Kilometer(w["tgt_km"]), Angular.Degree(0.1), Angular.MOA(-3.0), w["mag"]))
    out["mv_for_temp"] = snap(ammo.get_velocity_for_temp(Temperature.Celsius(-7.5)))
    return out


def count_numbers(o):
    if isinstance(o, (list, tuple)):
        return sum(count_numbers(x) for x in o)
    if isinstance(o, dict):
        return sum(count_numbers(x) for x in o.values())
    return 1 if isinstance(o, (float, str)) else 0


def check_workload(ctx, case):
    monitors.reset_all()
    w = case["workload"]
    assign("defaults")
    ref = workload(w)
    ctx.count("workloads")
    if w.get("wind_max_ft"):
        ctx.count("winds_ended_by_max_distance_feet")
        if not ref["wind_end_from_max_distance_feet"][1]:
            ctx.violation("wind.max_distance_feet", f"Wind(max_distance_feet={w['wind_max_ft'][2]}) ends at {unhex(ref['wind_end_from_max_distance_feet'][0][2])} "
                                                    f"inches, not at that many feet", {"kind": "workload", "workload": w, "assignments": ["defaults"]})
    if w["plane"] == "SFP":
        ctx.count("sfp_workloads")
    n = count_numbers(ref)
    for a in case["assignments"]:
        if isinstance(a, dict) and "stages" in a:
            got = workload(w, a["stages"])
            ctx.count("staged_sessions_compared")
        else:
            assign(a)
            got = workload(w)
        ctx.count("assignments_compared")
        if isinstance(a, str):
            ctx.count("preset_" + a)
        ctx.count("numbers_compared", n)
        c = {"kind": "workload", "workload": w, "assignments": [a]}
        ctx.case(c, nontrivial=(a != "defaults"))
        d = diff(ref, got)
        if d:
            ctx.violation("result-depends-on-preferred-units." + d[0].split("[")[0].split(".")[1 if d[0].startswith(".") else 0],
                          f"under preferred units {a} the result differs from the default-units run at {d[0]}: "
                          f"{unhex(d[1])!r} vs {unhex(d[2])!r}", c, path=d[0])
    monitors.reset_all()


def _winds(rng):
    ws = [[round(rng.uniform(0, 20), 1), rng.choice([3.0, 9.0, 12.0, round(rng.uniform(0, 12), 1)]), round(rng.uniform(50, 900), 0)]
          for _ in range(rng.choice([0, 1, 2, 2, 3]))]
    if len(ws) >= 2 and rng.random() < 0.6:
        # neighbouring until-distances a few per cent apart (300 yd vs 290 m): their order flips if they are ever compared in
        # the numbers of different display units
        ws[1][2] = round(ws[0][2] * rng.uniform(1.01, 1.09), 0)
        ws[1][1] = (ws[0][1] + 6.0) % 12.0
        ws[1][0] = max(ws[1][0], 8.0)
    for w_ in ws:
        # "all values including 0 and negatives": a negative speed (the wind named from the other side), a direction given
        # outside one turn of the clock face (-3 h, 15 h)
        if rng.random() < 0.15:
            w_[0] = -max(w_[0], 3.0)
        if rng.random() < 0.12:
            w_[1] = rng.choice([-3.0, -9.5, 15.0, 21.0, round(rng.uniform(-12, 24), 1)])
    rng.shuffle(ws)
    return ws


def gen_workload(rng):
    s = gen.shot(rng, custom=0.05)
    mv = round(rng.uniform(280, 950), 1)
    return {"shot": {"table": s["table"]}, "bc_points": sorted([[round(rng.uniform(0.2, 0.6), 3), round(rng.uniform(250, 950), 1)]
                                                                 for _ in range(rng.choice([1, 2, 3]))], key=lambda p: p[1]),
            "weight_g": round(rng.uniform(4, 20), 2), "diameter_mm": round(rng.uniform(5.5, 12), 2), "length_cm": round(rng.uniform(2, 5), 2),
            "mv_mps": mv, "powder_c": round(rng.uniform(0, 25), 1),
            "cal_v_kmh": round(mv * 3.6 * rng.choice([rng.uniform(0.93, 0.99), rng.uniform(1.01, 1.05)]), 0), "cal_t_k": round(rng.uniform(250, 272), 1),
            "alt_m": round(rng.uniform(0, 2500), 0), "p_mmhg": round(rng.uniform(560, 780), 1), "t_r": round(rng.uniform(440, 560), 1),
            "rh": round(rng.uniform(0, 100), 0), "powder_f": round(rng.uniform(0, 100), 1),
            "plane": rng.choice(["FFP", "SFP", "SFP", "LWIR"]), "scale_yd": round(rng.uniform(50, 200), 0),
            "h_click_moa": rng.choice([0.25, 0.125, 0.5]), "v_click_cm100": rng.choice([1.0, 0.5, 0.7]),
            "sight_cm": round(rng.uniform(0, 9), 1), "twist_mm": rng.choice([0.0, 254.0, -203.2]), "zero_mrad": round(rng.uniform(-1, 3), 3),
            "winds": _winds(rng),
            "wind_max_ft": [round(rng.uniform(5, 20), 1), rng.choice([3.0, 9.0]), round(rng.uniform(100, 1200), 0)] if rng.random() < 0.4 else None,
            "look_ths": round(rng.uniform(-300, 300), 1), "rel_iphy": round(rng.uniform(-20, 80), 1), "cant_deg": rng.choice([0.0, round(rng.uniform(-30, 30), 1)]),
            "zero_m": rng.choice([50.0, 100.0, 300.0]), "range_mi": round(rng.uniform(0.1, 0.5), 3), "step_line": round(rng.uniform(5000, 40000), 0),
            "ds_at_nmi": round(rng.uniform(0.02, 0.2), 3), "ds_h_ft": round(rng.uniform(0.3, 6), 2), "ds_look_mil": round(rng.uniform(-100, 100), 0),
            "mag": rng.choice([1.0, 4.0, 10.0, 24.0]), "tgt_km": round(rng.uniform(0.05, 1.5), 3)}


# =============================================================================== part B
def _dm():
    return DragModel(0.3, pb.TableG7)


def _ammo():
    return Ammo(_dm(), Velocity.FPS(2600))


def _shot():
    return Shot(Weapon(Distance.Inch(2)), _ammo())


_HIT = {}


def _hit():
    if "h" not in _HIT:
        with monitors.quiet():
            _HIT["h"] = Calculator().fire(_shot(), Distance.Yard(300), Distance.Yard(30), extra_data=True)
    return _HIT["h"]


def _fire(**kw):
    with monitors.quiet():
        try:
            return [r for r in Calculator().fire(_shot(), **kw)]
        except pb.RangeError as e:
            return ("RangeError", e.reason, [r for r in e.incomplete_trajectory])


def _zero(v, setter=False):
    s = _shot()
    with monitors.quiet():
        r = Calculator().set_weapon_zero(s, v) if setter else Calculator().barrel_elevation_for_target(s, v)
    return (r, s.weapon.zero_elevation)


def _calib(v=None, t=None):
    a = Ammo(_dm(), Velocity.FPS(2600), Temperature.Celsius(15))
    r = a.calc_powder_sens(Velocity.FPS(2500) if v is None else v, Temperature.Celsius(0) if t is None else t)
    return (r, a.temp_modifier)


def _global_step(v):
    try:
        set_global_max_calc_step_size(v)
        return get_global_max_calc_step_size()
    finally:
        reset_globals()


def _global_step_then_units_switched(v):
    """The number keeps the meaning it had when it was passed: the session's units change before the step is read / used."""
    was = PreferredUnits.distance
    try:
        set_global_max_calc_step_size(v)
        PreferredUnits.distance = Unit.Meter if was is not Unit.Meter else Unit.Foot
        calc = Calculator()
        return (get_global_max_calc_step_size(), calc._calc._config.max_calc_step_size_feet)  # pylint: disable=protected-access
    finally:
        PreferredUnits.distance = was
        reset_globals()


# name -> (slot or tuple of acceptable slots, callable(arg))
SITES = {
    "Atmo.altitude": ("distance", lambda v: Atmo(altitude=v)),
    "Atmo.pressure": ("pressure", lambda v: Atmo(pressure=v)),
    "Atmo.temperature": ("temperature", lambda v: Atmo(temperature=v)),
    "Atmo.powder_t": ("temperature", lambda v: Atmo(powder_t=v)),
    "Atmo.icao.altitude": ("distance", lambda v: Atmo.icao(v)),
    "Atmo.standard.altitude": ("distance", lambda v: Atmo.standard(v)),
    "Vacuum.altitude": ("distance", lambda v: Vacuum(v)),
    "Vacuum.temperature": ("temperature", lambda v: Vacuum(None, v)),
    "Wind.velocity": ("velocity", lambda v: Wind(v, Angular.Degree(90), Distance.Yard(100))),
    "Wind.direction_from": ("angular", lambda v: Wind(Velocity.FPS(5), v, Distance.Yard(100))),
    "Wind.until_distance": ("distance", lambda v: Wind(Velocity.FPS(5), Angular.Degree(90), v)),
    "Shot.look_angle": ("angular", lambda v: Shot(Weapon(), _ammo(), look_angle=v)),
    "Shot.relative_angle": ("angular", lambda v: Shot(Weapon(), _ammo(), relative_angle=v)),
    "Shot.cant_angle": ("angular", lambda v: Shot(Weapon(), _ammo(), cant_angle=v)),
    "Weapon.sight_height": ("sight_height", lambda v: Weapon(sight_height=v)),
    "Weapon.twist": ("twist", lambda v: Weapon(twist=v)),
    "Weapon.zero_elevation": ("angular", lambda v: Weapon(zero_elevation=v)),
    "Ammo.mv": ("velocity", lambda v: Ammo(_dm(), v)),
    "Ammo.powder_temp": ("temperature", lambda v: Ammo(_dm(), Velocity.FPS(2600), v)),
    "Ammo.calc_powder_sens.velocity": ("velocity", lambda v: _calib(v=v)),
    "Ammo.calc_powder_sens.temperature": ("temperature", lambda v: _calib(t=v)),
    "Ammo.get_velocity_for_temp": ("temperature", lambda v: Ammo(_dm(), Velocity.FPS(2600), Temperature.Celsius(15), 0.02, True).get_velocity_for_temp(v)),
    "Sight.scale_factor.FFP": ("distance", lambda v: Sight("FFP", v, Angular.Mil(0.1), Angular.Mil(0.1))),
    "Sight.scale_factor.SFP": ("distance", lambda v: Sight("SFP", v, Angular.Mil(0.1), Angular.Mil(0.1))),
    "Sight.h_click_size": ("adjustment", lambda v: Sight("FFP", None, v, Angular.Mil(0.1))),
    "Sight.v_click_size": ("adjustment", lambda v: Sight("LWIR", None, Angular.Mil(0.1), v)),
    "Sight.get_adjustment.target_distance": ("distance", lambda v: list(Sight("SFP", Distance.Meter(100), Angular.Mil(0.1), Angular.Mil(0.2))
                                                                        .get_adjustment(v, Angular.Mil(1), Angular.Mil(2), 10))),
    "DragModel.weight": ("weight", lambda v: DragModel(0.3, pb.TableG7, v, Distance.Inch(0.3), Distance.Inch(1))),
    "DragModel.diameter": ("diameter", lambda v: DragModel(0.3, pb.TableG7, Weight.Grain(100), v, Distance.Inch(1))),
    "DragModel.length": ("length", lambda v: DragModel(0.3, pb.TableG7, Weight.Grain(100), Distance.Inch(0.3), v)),
    "DragModelMultiBC.weight": ("weight", lambda v: DragModelMultiBC([BCPoint(0.3, Mach=2)], pb.TableG7, v, Distance.Inch(0.3))),
    "DragModelMultiBC.diameter": ("diameter", lambda v: DragModelMultiBC([BCPoint(0.3, Mach=2)], pb.TableG7, Weight.Grain(100), v)),
    "DragModelMultiBC.length": ("length", lambda v: DragModelMultiBC([BCPoint(0.3, Mach=2)], pb.TableG7, Weight.Grain(100), Distance.Inch(0.3), v)),
    "BCPoint.V": ("velocity", lambda v: BCPoint(0.3, V=v)),
    "Calculator.barrel_elevation_for_target.distance": ("distance", _zero),
    "Calculator.set_weapon_zero.distance": ("distance", lambda v: _zero(v, True)),
    "Calculator.fire.trajectory_range": ("distance", lambda v: _fire(trajectory_range=v, trajectory_step=Distance.Yard(50))),
    "Calculator.fire.trajectory_step": ("distance", lambda v: _fire(trajectory_range=Distance.Yard(200), trajectory_step=v)),
    "HitResult.danger_space.at_range": ("distance", lambda v: _hit().danger_space(v, Distance.Inch(10))),
    "HitResult.danger_space.target_height": (("distance", "target_height"), lambda v: _hit().danger_space(Distance.Yard(200), v)),
    "HitResult.danger_space.look_angle": ("angular", lambda v: _hit().danger_space(Distance.Yard(200), Distance.Inch(10), v)),
    "set_global_max_calc_step_size": ("distance", _global_step),
    "set_global_max_calc_step_size.then-units-switched": ("distance", _global_step_then_units_switched),
}


def attempt(fn, arg):
    try:
        return ("ok", snap(fn(arg), zero_sign=False))
    except Exception as e:  # pylint: disable=broad-except
        return ("raise", type(e).__name__)


def check_site(ctx, case):
    name, v, a = case["site"], case["value"], case["assignment"]
    slots, fn = SITES[name]
    slots = (slots,) if isinstance(slots, str) else slots
    assign(a)
    _HIT.clear()
    ctx.count("sites_checked")
    ctx.count("site_values_zero" if v == 0 else "site_values_negative" if v < 0 else "site_values_positive")
    ctx.case(case, nontrivial=(a != "defaults"), sample=(v == 0))
    bare = attempt(fn, v)
    verdicts = []
    for slot in slots:
        unit = getattr(PreferredUnits, slot)
        if name == "Calculator.fire.trajectory_step" and v == 0:
            explicit = ("ok", snap(_fire(trajectory_range=Distance.Yard(200)), zero_sign=False))   # documented sentinel
        else:
            explicit = attempt(fn, unit(v))
        d = None if bare == explicit else (diff(bare[1], explicit[1]) if bare[0] == explicit[0] == "ok" else ("outcome", bare, explicit))
        verdicts.append((slot, unit, d, explicit))
    if all(d is not None for _, _, d, _ in verdicts):
        slot, unit, d, explicit = verdicts[0]
        if bare[0] == explicit[0] == "ok":
            what = f"{name}({v!r}) differs from {name}({unit!r}({v!r})) at {d[0]}: {unhex(d[1])!r} vs {unhex(d[2])!r}"
        else:
            what = f"{name}({v!r}) -> {bare[0]} {bare[1] if bare[0] == 'raise' else ''}, but {name}({unit!r}({v!r})) -> {explicit[0]} {explicit[1] if explicit[0] == 'raise' else ''}"
        ctx.violation("bare-not-explicit." + name + (".zero" if v == 0 else ""), what + f"  (preferred {slot} unit {unit!r})", case)
    elif bare[0] == "raise":
        ctx.count("both_raised_same")
    monitors.reset_all()


def run(ctx):
    rng = ctx.rng
    n_work, k_assign, reps = (28, 5, 2) if ctx.tier == "quick" else (1500, 8, 40)
    # part B: every site x value x assignment (sites partitioned over shards so the matrix is fully populated)
    sites = sorted(SITES)
    ctx.count("sites_distinct", len(ctx.my(sites)))
    for name in ctx.my(sites):
        for rep in range(reps + 1):
            a = "defaults" if rep == 0 else random_assignment(rng)
            # (59, 32, 15, 36, 12: numbers that coincide with the raw base-unit values of common defaults - 15 C = 59 F, 1 yd = 36 in)
            for v in [0, -0.0, 1, -3.5, 1e-3, 250.0, round(rng.uniform(0.01, 400), 3), -round(rng.uniform(0.01, 40), 3), 59, 32.0, 15, 36, 12.0]:
                if not ctx.time_left():
                    break
                check_site(ctx, {"kind": "site", "site": name, "value": v, "assignment": a})
    for _ in range(ctx.share(n_work)):
        if not ctx.time_left():
            break
        w = gen_workload(rng)
        check_workload(ctx, {"kind": "workload", "workload": w,
                             "assignments": ["imperial", "metric", "mixed"] + [random_assignment(rng) for _ in range(k_assign)]
                             + [{"stages": [rng.choice(["defaults", "metric", "imperial", random_assignment(rng)]) for _ in range(rng.randint(2, 4))]}
                                for _ in range(3)]})


def replay(ctx, case):
    if case["kind"] == "site":
        check_site(ctx, case)
    else:
        check_workload(ctx, case)
