"""C20 - trajectory look-ups return the first row satisfying the query.

Monitor shape: differential against a sequential scan (R-SCAN) on synthetic trajectories (built with the real row
constructor: any length incl. 0/1, repeated values) and on real fired trajectories."""
import math
from fractions import Fraction

import py_ballisticcalc as pb
from py_ballisticcalc import Calculator, Distance, HitResult, TrajFlag, Unit, Velocity
from py_ballisticcalc import helpers
from py_ballisticcalc.trajectory_calc import create_trajectory_row
from py_ballisticcalc.vector import Vector

from vf import build, gen
from vf import refs_si as si

ID = "C20"
RULE = ("synthetic trajectories of length 0..40 with non-decreasing distance and time incl. repeated values (rows made "
        "by the real create_trajectory_row) and real extra-data trajectories; for each, queries below / on every value / "
        "between values / beyond, distances in any unit; every look-up function is compared with a sequential scan; "
        "a case = (trajectory, function, query); non-trivial when the trajectory has >= 2 rows and the query lies "
        "inside or on the recorded span")
MUST_OBSERVE = ["apex_checked_on_inclined_rows", "lookups", "empty_trajectories", "single_row_trajectories", "trajectories_with_repeats",
                "sentinel_minus1", "sentinel_nan", "sentinel_arith", "nearest_ties", "apex_checked", "real_trajectories",
                "negative_rejected", "trajectories_edited_in_place"]
ASSUMPTIONS = ["the scan applies the same comparison (row value in the query's unit >= query) row by row",
               "apex: only single-peaked height sequences (strictly rising, optional plateau at the top, strictly falling)"]
DIST = si.DIMENSIONS["Distance"]


def budget(tier):
    return {"shards": 14, "deadline_s": 45 if tier == "quick" else 600}


def mk_rows(spec, look_rad=0.0):
    rows = []
    for t, x, y, v, flag in spec:
        rows.append(create_trajectory_row(t, Vector(x, y, 0.0), Vector(v, 0.0, 0.0), v, 1116.0, 0.0, look_rad,
                                          1.0, 0.0, 150.0, flag))
    return rows


_SHOT = None


def dummy_shot():
    global _SHOT  # pylint: disable=global-statement
    if _SHOT is None:
        _SHOT = build.shot({"table": "G7", "bc": 0.3, "mv_fps": 2600})
    return _SHOT


def scan_first(vals, q):
    for i, v in enumerate(vals):
        if v >= q:
            return i
    return -1


def scan_nearest(times, q, dev, got=None):
    """The row minimising |t - q| (earlier row on ties) if that minimum is within dev, else -1 - in exact arithmetic (with rows a
    few ulps apart a float subtraction from a distant query merges them).  Where two candidates differ by less than the rounding
    noise of a float subtraction (a query half-way between two rows), or the minimum sits within that noise of dev, either
    answer satisfies the statement: if `got` is one of them it is returned."""
    if not times:
        return -1
    fq, fd = Fraction(q), Fraction(dev)
    ds = [abs(Fraction(t) - fq) for t in times]
    best = min(ds)
    tol = Fraction(4 * 2.220446049250313e-16 * max(abs(q), max(abs(t) for t in times), 1e-300))
    preferred = ds.index(best) if best <= fd else -1
    ok = set()
    if best <= fd + tol:
        # (an exact tie - equal times, or two rows exactly equidistant from the query - goes to the earlier row, always)
        ok |= {i for i, d in enumerate(ds) if d - best <= tol and d <= fd + tol and d not in ds[:i]}
    if best > fd - tol:
        ok.add(-1)
    return got if got in ok else preferred


def call(fn):
    try:
        return ("ok", fn())
    except Exception as exc:  # pylint: disable=broad-except
        return ("raise", type(exc).__name__)


def check_traj(ctx, rows, case, extra=True, hit=None):
    hit = hit or HitResult(dummy_shot(), rows, extra)
    n = len(rows)
    times = [r.time for r in rows]
    nt_base = n >= 2
    if n == 0:
        ctx.count("empty_trajectories")
    if n == 1:
        ctx.count("single_row_trajectories")
    if len(set(times)) < n or len({r.distance.raw_value for r in rows}) < n:
        ctx.count("trajectories_with_repeats")

    def record(fn_name, q, got, want, inside):
        ctx.count("lookups")
        ctx.count("fn_" + fn_name)
        c = dict(case, fn=fn_name, query=q)
        ctx.case(c, nontrivial=nt_base and inside, sample=(fn_name == "find_index_for_time_point.nearest"))
        if want == ("ok", -1):
            ctx.count("sentinel_minus1")
        same = got == want or (got[0] == want[0] == "ok" and isinstance(got[1], float) and isinstance(want[1], float)
                               and math.isnan(got[1]) and math.isnan(want[1]))
        if not same:
            ctx.violation(f"{fn_name}", f"{fn_name}({q}) on a {n}-row trajectory returned {got}, sequential scan says {want}",
                          c, got=got, want=want)

    # ---- distance look-ups
    for q_unit, q in case["dist_queries"]:
        u = Unit[q_unit]
        vals = [r.distance >> u for r in rows]
        want_i = scan_first(vals, q)
        inside = n > 0 and vals[0] <= q <= vals[-1]
        record("find_index_of_point_for_distance", [q_unit, q],
               call(lambda: helpers.find_index_of_point_for_distance(hit, q, u)), ("ok", want_i), inside)
        want_t = ("ok", times[want_i]) if want_i >= 0 else ("ok", float("nan"))
        if want_i < 0:
            ctx.count("sentinel_nan")
        record("find_time_for_distance_in_shot", [q_unit, q],
               call(lambda: helpers.find_time_for_distance_in_shot(hit, q, u)), want_t, inside)
        d = u(q)
        want_raw = scan_first([r.distance.raw_value for r in rows], d.raw_value)
        record("index_at_distance", [q_unit, q], call(lambda: hit.index_at_distance(d)), ("ok", want_raw), inside)
        got = call(lambda: hit.get_at_distance(d))
        if got[0] == "ok":
            got = ("ok", next((i for i, r in enumerate(rows) if r is got[1]), "foreign row"))
        if want_raw < 0:
            ctx.count("sentinel_arith")
        record("get_at_distance", [q_unit, q], got, ("ok", want_raw) if want_raw >= 0 else ("raise", "ArithmeticError"), inside)
    # ---- time look-ups
    for q, dev in case["time_queries"]:
        inside = n > 0 and times[0] <= q <= times[-1]
        if q < 0 or dev < 0:
            ctx.count("negative_rejected")
            for strict in (True, False):
                record("find_index_for_time_point.negative", [q, dev, strict],
                       call(lambda: helpers.find_index_for_time_point(hit, q, strict, dev)), ("raise", "ValueError"), False)
            continue
        record("find_index_for_time_point.strict", [q, dev],
               call(lambda: helpers.find_index_for_time_point(hit, q, True, dev)), ("ok", scan_first(times, q)), inside)
        # the other spellings of the same call: the documented defaults are 'first row at or after' and a deviation of 1 s
        form = ["time_only", "deviation_only", "keywords", "keywords_default_dev", "nearest_default_dev"][int((q + 3 * dev) * 7919) % 5]
        ctx.count("time_call_forms_" + form)
        if form == "time_only":
            record("find_index_for_time_point.strict", [q, "(defaults)"], call(lambda: helpers.find_index_for_time_point(hit, q)),
                   ("ok", scan_first(times, q)), inside)
        elif form == "deviation_only":
            record("find_index_for_time_point.strict", [q, dev, "(strictly_bigger_or_equal omitted)"],
                   call(lambda: helpers.find_index_for_time_point(hit, q, max_time_deviation_in_seconds=dev)), ("ok", scan_first(times, q)), inside)
        elif form == "keywords":
            record("find_index_for_time_point.strict", [q, dev, "(keywords)"],
                   call(lambda: helpers.find_index_for_time_point(shot=hit, time=q, max_time_deviation_in_seconds=dev, strictly_bigger_or_equal=True)),
                   ("ok", scan_first(times, q)), inside)
        elif form == "keywords_default_dev":
            record("find_index_for_time_point.strict", [q, "(strictly_bigger_or_equal=True only)"],
                   call(lambda: helpers.find_index_for_time_point(hit, q, strictly_bigger_or_equal=True)), ("ok", scan_first(times, q)), inside)
        elif times:
            got1 = call(lambda: helpers.find_index_for_time_point(hit, q, False))
            record("find_index_for_time_point.nearest", [q, "(default deviation 1 s)"], got1,
                   ("ok", scan_nearest(times, q, 1, got1[1] if got1[0] == "ok" else None)), inside)
        got_n = call(lambda: helpers.find_index_for_time_point(hit, q, False, dev))
        want = scan_nearest(times, q, dev, got_n[1] if got_n[0] == "ok" else None)
        if n >= 2 and want >= 0:
            dmin = abs(times[want] - q)
            if sum(1 for t in times if abs(t - q) == dmin) > 1:
                ctx.count("nearest_ties")
        record("find_index_for_time_point.nearest", [q, dev], got_n, ("ok", want), inside)
    # ---- flag / velocity helpers (sequential by construction; still compared)
    for flag in (TrajFlag.ZERO_UP, TrajFlag.ZERO_DOWN, TrajFlag.MACH, TrajFlag.RANGE):
        want = next((i for i, r in enumerate(rows) if r.flag & flag), -1)
        record("find_index_of_point_with_flag", [int(flag)], call(lambda: helpers.find_index_of_point_with_flag(hit, flag)),
               ("ok", want), want >= 0)
    record("find_mach_point_index", [], call(lambda: helpers.find_mach_point_index(hit)),
           ("ok", next((i for i, r in enumerate(rows) if r.flag & TrajFlag.MACH), -1)), True)
    record("find_touch_point_index", [], call(lambda: helpers.find_touch_point_index(hit)),
           ("ok", next((i for i, r in enumerate(rows) if r.flag & TrajFlag.ZERO_DOWN), -1)), True)
    for vq in case.get("vel_queries", []):
        want = next((i for i, r in enumerate(rows) if (r.velocity >> Velocity.MPS) < vq), -1)
        record("find_velocity_less_than_index", [vq], call(lambda: helpers.find_velocity_less_than_index(hit, vq)),
               ("ok", want), want >= 0)


def check_apex(ctx, case):
    heights = case["heights"]
    # the rows may belong to an inclined shot: the apex is the highest row all the same (height, not height over the sight line)
    rows = mk_rows([(i * 0.01, i * 10.0, h, 900.0, 8) for i, h in enumerate(heights)], math.radians(case.get("look_deg") or 0.0))
    ctx.count("apex_checked")
    if case.get("look_deg"):
        ctx.count("apex_checked_on_inclined_rows")
    c = dict(case)
    ctx.case(c, nontrivial=len(heights) >= 3)
    got = call(lambda: helpers.find_index_of_apex_in_points(rows))
    got2 = call(lambda: helpers.find_index_of_apex_point(HitResult(dummy_shot(), rows, True)))
    for g, name in ((got, "find_index_of_apex_in_points"), (got2, "find_index_of_apex_point")):
        ctx.count("lookups")
        if not heights:
            if g != ("ok", -1):
                ctx.violation(name + ".empty", f"{name} on the empty list returned {g}, expected -1", c)
            continue
        if g[0] != "ok" or not isinstance(g[1], int) or not 0 <= g[1] < len(heights) or heights[g[1]] != max(heights):
            ctx.violation(name, f"{name} returned {g}; heights max {max(heights)} at {heights.index(max(heights))}", c,
                          got=g)


def gen_synthetic(rng):
    n = rng.choice([0, 0, 1, 1, 2, 2, 3, 5, 8, 13, 21, 40])
    t, x, spec = 0.0, 0.0, []
    for i in range(n):
        if i:
            k = rng.random()
            if k < 0.2:        # repeated time and distance (event row next to a range row)
                pass
            elif k < 0.25:     # ... or almost on top of it: distinct times a few ulps / 1e-10 relative apart
                t_close = rng.choice([math.nextafter(t, math.inf), t * (1 + 4e-10), t + 1e-12]) if t > 0 else 1e-13
                spec.append([t_close, round(x, 4), round(rng.uniform(-5, 5), 3), round(rng.uniform(100, 3000), 2), rng.choice([1, 2, 4, 9])])
                t = t_close
                continue
            elif k < 0.35:     # same distance, later time (vertical flight)
                t += rng.choice([0.001, rng.uniform(0.001, 0.5)])
            else:
                t += rng.choice([0.001, rng.uniform(0.001, 0.5)])
                x += rng.choice([0.5, rng.uniform(0.1, 300.0)])
        flag = rng.choice([8, 8, 8, 1, 2, 4, 9, 12, 0])
        t_row = round(t, 6)
        if spec and t_row < spec[-1][0]:
            t_row = spec[-1][0]           # (rounding must not step back behind a row a few ulps later than the rounded value)
        t = t_row                         # the running time is always the time of the last row
        spec.append([t_row, round(x, 4), round(rng.uniform(-5, 5), 3), round(rng.uniform(100, 3000), 2), flag])
    return spec


def queries(rng, spec, rows):
    dq, tq = [], []
    xs = [s[1] for s in spec]
    ts = [s[0] for s in spec]
    pts_x = sorted(set(xs)) or [0.0]
    pts_t = sorted(set(ts)) or [0.0]
    cand_x = [-1.0, pts_x[0], pts_x[-1], pts_x[-1] + 1e-9, pts_x[-1] + 50.0, rng.choice(pts_x)]
    cand_x += [(a + b) / 2 for a, b in zip(pts_x, pts_x[1:])][:6]
    for x_ft in cand_x:
        unit = rng.choice(DIST)
        if rng.random() < 0.5 and rows:
            # exactly the library's own value of a row in that unit (on-the-node query)
            q = rng.choice(rows).distance >> Unit[unit]
        else:
            q = si.from_base("Distance", unit, x_ft * 0.3048)
        dq.append([unit, q])
    cand_t = [0.0, pts_t[-1], pts_t[-1] + 1e-9, pts_t[-1] + 5.0, rng.choice(pts_t), -0.5]
    mids = [(a + b) / 2 for a, b in zip(pts_t, pts_t[1:])]
    cand_t += mids[:6] + [m + 1e-7 for m in mids[:2]]
    for t in cand_t:
        tq.append([t, rng.choice([1.0, 0.0, 0.01, rng.uniform(0, 0.3), 100.0])])
    near = [(a, b) for a, b in zip(pts_t, pts_t[1:]) if 0 < b - a < 1e-8]
    for ta, tb in near[:3]:
        # between two nearly coincident times: nearer to the earlier one, half-way, nearer to the later one
        for f in (0.25, 0.5, 0.75):
            tq.append([ta + (tb - ta) * f, rng.choice([1.0, 0.01, 100.0])])
    tq.append([0.1, -1.0])
    return dq, tq


def run(ctx):
    rng = ctx.rng
    total = 2500 if ctx.tier == "quick" else 100000
    calc = Calculator()
    for i in range(ctx.share(total)):
        if not ctx.time_left():
            break
        k = rng.random()
        if k < 0.7:
            spec = gen_synthetic(rng)
            rows = mk_rows(spec)
            dq, tq = queries(rng, spec, rows)
            case = {"kind": "synthetic", "rows": spec, "dist_queries": dq, "time_queries": tq,
                    "vel_queries": [rng.uniform(30, 1000)]}
            check_traj(ctx, rows, case)
            if len(rows) >= 3 and rng.random() < 0.3:
                # the same list object, edited in place (rows dropped / appended), looked up again through a HitResult that
                # shares it - as when a caller trims or extends hit.trajectory
                hit = HitResult(dummy_shot(), rows, True)
                for unit_q in dq[:3]:
                    helpers.find_index_of_point_for_distance(hit, unit_q[1], Unit[unit_q[0]])
                    hit.index_at_distance(Unit[unit_q[0]](unit_q[1]))
                for q, dev in tq[:3]:
                    if q >= 0 and dev >= 0:
                        helpers.find_index_for_time_point(hit, q, False, dev)
                cut = rng.randrange(1, len(rows))
                spec2 = spec[:cut] + spec[cut + 1:]
                del rows[cut]
                if rng.random() < 0.5:
                    last = spec2[-1]
                    extra = [round(last[0] + 0.2, 6), round(last[1] + 37.0, 4), -1.0, 500.0, 8]
                    spec2 = spec2 + [extra]
                    rows.extend(mk_rows([extra]))
                ctx.count("trajectories_edited_in_place")
                check_traj(ctx, rows, dict(case, rows=spec2, edited_in_place=True), hit=hit)
                # rows replaced one for one (the list keeps its length): times and distances shifted, one row moved
                spec3 = [[round(r[0] + 0.05, 6), round(r[1] + 41.0, 4)] + list(r[2:]) for r in spec2]
                k = rng.randrange(len(spec3))
                lo = spec3[k - 1][1] if k > 0 else spec3[k][1] - 30.0
                hi = spec3[k + 1][1] if k + 1 < len(spec3) else spec3[k][1] + 30.0
                spec3[k] = [spec3[k][0], round(rng.uniform(lo, hi), 4)] + list(spec3[k][2:])      # stays between its neighbours
                rows[:] = mk_rows(spec3)
                ctx.count("trajectories_edited_in_place")
                check_traj(ctx, rows, dict(case, rows=spec3, edited_in_place="rows replaced one for one"), hit=hit)
        elif k < 0.85:
            up = rng.randint(0, 12)
            top = rng.choice([1, 1, 2, 3])
            down = rng.randint(0, 12)
            h, hs = rng.uniform(-3, 3), []
            for _ in range(up):
                hs.append(round(h, 4))
                h += rng.uniform(0.01, 4)
            hs += [round(h, 4)] * top
            for _ in range(down):
                h -= rng.uniform(0.01, 4)
                hs.append(round(h, 4))
            if rng.random() < 0.1:
                hs = []
            check_apex(ctx, {"kind": "apex", "heights": hs, "look_deg": rng.choice([0.0, 0.0, round(rng.uniform(-30, 30), 1)])})
        else:
            s = gen.shot(rng, custom=0.0, cant=False, wind_n=0)
            s["rel_deg"] = rng.choice([0.2, 1.0, 5.0])
            rngft = rng.choice([300.0, 900.0, 2400.0])
            try:
                hit = calc.fire(build.shot(s), Distance.Foot(rngft), Distance.Foot(rngft / rng.choice([3, 10, 30])),
                                extra_data=True)
            except pb.RangeError as err:
                hit = HitResult(dummy_shot(), err.incomplete_trajectory, True)
            rows = list(hit.trajectory)
            xs = [r.distance.raw_value for r in rows]
            ts = [r.time for r in rows]
            if any(b < a for a, b in zip(xs, xs[1:])) or any(b < a for a, b in zip(ts, ts[1:])):
                ctx.count("real_trajectory_not_monotone_skipped")
                continue
            ctx.count("real_trajectories")
            spec = [[r.time, r.distance >> Distance.Foot, 0, 0, r.flag] for r in rows]
            dq, tq = queries(rng, spec, rows)
            case = {"kind": "real", "shot": s, "range_ft": rngft, "n_rows": len(rows), "dist_queries": dq,
                    "time_queries": tq, "vel_queries": [rng.uniform(100, 900)]}
            check_traj(ctx, rows, case)


def replay(ctx, case):
    if case["kind"] == "apex":
        check_apex(ctx, case)
    elif case["kind"] == "synthetic":
        c = dict(case)
        c.pop("fn", None)
        c.pop("query", None)
        check_traj(ctx, mk_rows(case["rows"]), c)
    else:
        ctx.skip("real-trajectory cases are replayed by re-running the shard seed")
