"""C09 - drag used by the solver is faithful to the drag table and BC definition.

Monitor shape: node / both-sides / midpoint sweep of the real TrajectoryCalc.drag_by_mach after the solver's own
_init_trajectory(shot); oracle R-LAGRANGE (parabola / line through tabulated points, written independently), golden
snapshot of the shipped tables, and rho0*pi/1152 for the retardation constant."""
import hashlib
import json
import math
import os
import sys

import py_ballisticcalc as pb
from py_ballisticcalc import BCPoint, Calculator, Distance, DragModel, DragModelMultiBC

from vf import build, gen
from vf.build import TABLE_NAMES, reset_globals

ID = "C09"
RULE = ("the nine shipped tables and random custom tables (3-40 strictly ascending nodes, gaps 0.01-0.8, CD 0.05-1.0) x "
        "random BC; Mach queries: every node, one ulp either side of every node, every interval midpoint and one ulp either "
        "side (where the selected entry changes), random interior points, 0, below/beyond the table; shipped tables "
        "additionally 40 points per interval against the linear interpolant and a golden snapshot before/after library "
        "use; a case = (table, BC); non-trivial for every table (custom tables are all distinct)")
MUST_OBSERVE = ["tables_under_non_default_configuration", "tables_checked", "shipped_tables_checked", "custom_tables_checked", "node_queries", "midpoint_side_queries",
                "beyond_table_queries", "first_interval_queries", "tables_not_starting_at_mach0", "below_table_queries", "tables_tuned_in_place_between_setups", "linear_band_points", "golden_comparisons", "tables_after_another_table_on_the_same_calculator",
                "constant_checks"]
ASSUMPTIONS = ["golden snapshot vf/golden/drag_tables.json (taken from the pinned commit; spot values agree with the published "
               "G1/G7) is the trusted statement of 'the published tables'",
               "standard air density 0.076474 lb/ft^3; the library's constant is compared to rho0*pi/1152 to 5e-6 (it is "
               "documented with 6 significant digits)"]
EPS = sys.float_info.epsilon
K_EXACT = 0.076474 * math.pi / (8 * 144)
GOLDEN = None


# calculator settings under which the drag function must be exactly what it is under the defaults
CONFIGS = [None, {"cGravityConstant": -32.0}, {"cGravityConstant": -5.32}, {"max_calc_step_size_feet": 2.0, "cMinimumVelocity": 0.0},
           {"cGravityConstant": -9.80665, "cMaximumDrop": -5.0, "cMinimumAltitude": 0.0}, {"cZeroFindingAccuracy": 1e-3, "cMaxIterations": 5}]


def budget(tier):
    return {"shards": 14, "deadline_s": 45 if tier == "quick" else 900}


def golden():
    global GOLDEN  # pylint: disable=global-statement
    if GOLDEN is None:
        path = os.path.join(os.path.dirname(os.path.dirname(os.path.abspath(__file__))), "golden", "drag_tables.json")
        with open(path, encoding="utf-8") as fp:
            GOLDEN = json.load(fp)["tables"]
        for name, t in GOLDEN.items():
            assert hashlib.sha256(json.dumps(t["points"]).encode()).hexdigest() == t["sha256"], name
    return GOLDEN


def lagrange(pts, q):
    """Value at q of the polynomial through pts (2 or 3 points) and the magnitude sum of its monomial terms at q
    (the amplification of rounding when the same polynomial is evaluated as c + q (b + a q))."""
    if len(pts) == 2:
        (x0, y0), (x1, y1) = pts
        b = (y1 - y0) / (x1 - x0)
        c = y0 - b * x0
        return y0 + b * (q - x0), abs(c) + abs(b * q)
    (x0, y0), (x1, y1), (x2, y2) = pts
    val = (y0 * (q - x1) * (q - x2) / ((x0 - x1) * (x0 - x2))
           + y1 * (q - x0) * (q - x2) / ((x1 - x0) * (x1 - x2))
           + y2 * (q - x0) * (q - x1) / ((x2 - x0) * (x2 - x1)))
    d0, d1, d2 = y0 / ((x0 - x1) * (x0 - x2)), y1 / ((x1 - x0) * (x1 - x2)), y2 / ((x2 - x0) * (x2 - x1))
    a = d0 + d1 + d2
    b = -(d0 * (x1 + x2) + d1 * (x0 + x2) + d2 * (x0 + x1))
    c = d0 * x1 * x2 + d1 * x0 * x2 + d2 * x0 * x1
    # the coefficients themselves come out of cancelling sums: carry that into the amplification
    amp = (abs(d0) + abs(d1) + abs(d2)) * q * q + (abs(d0 * (x1 + x2)) + abs(d1 * (x0 + x2)) + abs(d2 * (x0 + x1))) * abs(q) \
        + abs(d0 * x1 * x2) + abs(d1 * x0 * x2) + abs(d2 * x0 * x1)
    del a, b, c
    return val, amp


def candidates(tab, q):
    """Polynomials the statement allows at q: [(name, value, amplification)]."""
    n = len(tab)
    if q <= tab[0][0]:
        i = 0
    elif q >= tab[-1][0]:
        return [("last-three", *lagrange(tab[n - 3:], q))]
    else:
        i = max(k for k in range(n - 1) if tab[k][0] <= q)
    out = []
    if i == 0:
        out.append(("line01", *lagrange(tab[0:2], q)))
    if i >= 1:
        out.append((f"parabola{i - 1}-{i + 1}", *lagrange(tab[i - 1:i + 2], q)))
    if i + 2 <= n - 1:
        out.append((f"parabola{i}-{i + 2}", *lagrange(tab[i:i + 3], q)))
    return out


def queries(rng, tab, thorough):
    qs = [("zero", 0.0)]
    for i, (m, _) in enumerate(tab):
        qs.append(("node", m))
        qs.append(("node-", math.nextafter(m, -math.inf)))
        qs.append(("node+", math.nextafter(m, math.inf)))
        if i + 1 < len(tab):
            mid = (m + tab[i + 1][0]) / 2
            qs += [("mid", mid), ("mid-", math.nextafter(mid, -math.inf)), ("mid+", math.nextafter(mid, math.inf))]
            for _ in range(6 if thorough else 2):
                qs.append(("interior", rng.uniform(m, tab[i + 1][0])))
    last = tab[-1][0]
    qs += [("beyond", last * 1.1), ("beyond", last + 3.0), ("beyond", last + rng.uniform(0, 1))]
    if tab[0][0] > 0:
        qs += [("below", tab[0][0] / 2), ("below", tab[0][0] * 0.99), ("below", math.nextafter(tab[0][0], -math.inf))]
    return [(k, q) for k, q in qs if q >= 0]


def check_table(ctx, case, thorough):
    reset_globals()
    rng = ctx.rng
    shipped = isinstance(case["table"], str)
    tab = [tuple(p) for p in (golden()[case["table"]]["points"] if shipped else case["table"])]
    # (with 'tuned_in_place' the model is constructed with another BC: the BC under test is given by assignment afterwards)
    spec = {"table": case["table"], "bc": case["bc"] * 1.5 if case.get("tuned_in_place") else case["bc"], "mv_fps": 2600.0}
    shot = build.shot(spec)
    calc = Calculator(_config=dict(case["config"])) if case.get("config") else Calculator()
    if case.get("config"):
        ctx.count("tables_under_non_default_configuration")     # drag is a property of table and BC: no setting may enter it
    tc = calc._calc  # pylint: disable=protected-access
    if case.get("tuned_in_place"):
        # the same calculator has already set this very DragModel object up while its table and BC held other values
        # (a table being tuned in place between shots); it must use the table as it is now
        dm = shot.ammo.dm
        keep = [(p.Mach, p.CD) for p in dm.drag_table]
        for p in dm.drag_table:
            p.CD *= 1.0 + 0.3 * math.sin(7 * p.Mach + 1.0) ** 2
        try:
            tc._init_trajectory(shot)  # pylint: disable=protected-access
            tc.drag_by_mach(1.1)
        except ZeroDivisionError:
            pass        # judged below, at the set-up proper
        for p, (m, c) in zip(dm.drag_table, keep):
            p.Mach, p.CD = m, c
        dm.BC = case["bc"]
        ctx.count("tables_tuned_in_place_between_setups")
    q0 = None
    if case.get("prior"):
        # the same calculator has just served another shot with another (sparse) table: a short flight and a few look-ups of
        # its own; whatever the last of them left behind, the first look-ups for the new shot (taken next to it) are the new table's
        pr = case["prior"]
        pshot = build.shot({"table": pr["table"], "bc": pr["bc"], "mv_fps": pr["mv_fps"]})
        if pr.get("fire_ft"):
            from vf import monitors  # pylint: disable=import-outside-toplevel
            with monitors.quiet():
                try:
                    calc.fire(pshot, Distance.Foot(pr["fire_ft"]), Distance.Foot(pr["fire_ft"]))
                except pb.RangeError:
                    pass
            q0 = pr["mv_fps"] / 1116.45
        else:
            tc._init_trajectory(pshot)  # pylint: disable=protected-access
        for q in pr.get("lookups", []):
            tc.drag_by_mach(q)
            q0 = q
        ctx.count("tables_after_another_table_on_the_same_calculator")
    try:
        tc._init_trajectory(shot)  # the call the solver itself makes  pylint: disable=protected-access
    except ZeroDivisionError as exc:
        gap = min((b[0] - a[0]) / max(abs(b[0]), 1e-300) for a, b in zip(tab, tab[1:]))
        ctx.case(case, nontrivial=True, sample=False)
        # listed finding, identified by its mechanism: the curve fit divides by a determinant that cancels to zero when two
        # neighbouring Mach numbers are (almost) equal; any other division by zero during set-up is a violation
        ctx.violation("C09.near-coincident-nodes" if gap < 1e-9 else "set-up.division-by-zero",
                      f"setting the solver up for a strictly ascending table raised ZeroDivisionError ({exc}); smallest relative gap between "
                      f"neighbouring Mach numbers {gap:.3e}", case, smallest_relative_gap=gap)
        return
    bc = case["bc"]
    ctx.count("tables_checked")
    ctx.count("shipped_tables_checked" if shipped else "custom_tables_checked")
    if tab[0][0] > 0:
        ctx.count("tables_not_starting_at_mach0")
    ctx.case(case, nontrivial=True, sample=not shipped)
    if [(p.Mach, p.CD) for p in calc.cdm] != list(tab):
        ctx.violation("cdm-table", "Calculator.cdm differs from the table given", case)
    # retardation constant from the nodes (at a node the curve value is the tabulated one)
    order = sorted(range(len(tab)), key=lambda i: abs(tab[i][0] - q0)) if q0 is not None else range(len(tab))
    ks_by_node = {i: tc.drag_by_mach(tab[i][0]) * bc / tab[i][1] for i in order}
    ks = [ks_by_node[i] for i in range(len(tab))]
    k_hat = sorted(ks)[len(ks) // 2]
    ctx.count("constant_checks")
    ctx.max("constant_rel_dev", abs(k_hat / K_EXACT - 1))
    if not abs(k_hat / K_EXACT - 1) <= 5e-6:
        ctx.violation("retardation-constant", f"retardation per (density ratio x v^2) is Cd x {k_hat:.8e} / BC, "
                                              f"expected rho0*pi/1152 = {K_EXACT:.8e}", case, got=k_hat, want=K_EXACT)
    for kind, q in queries(rng, tab, thorough):
        got = tc.drag_by_mach(q) * bc / k_hat
        cands = candidates(tab, q)
        ctx.count({"node": "node_queries", "node-": "node_queries", "node+": "node_queries", "mid-": "midpoint_side_queries",
                   "mid+": "midpoint_side_queries", "mid": "midpoint_side_queries", "beyond": "beyond_table_queries"}
                  .get(kind, "other_queries"))
        if tab[0][0] <= q <= tab[1][0]:
            ctx.count("first_interval_queries")
        if q < tab[0][0]:
            ctx.count("below_table_queries")
        ok = False
        best = None
        for name, val, amp in cands:
            tol = 1e-9 * abs(val) + 256 * EPS * amp + 1e-300
            err = abs(got - val)
            if best is None or err < best[1]:
                best = (name, err, val, tol)
            if err <= tol:
                ok = True
                break
        if kind == "node":
            cd_node = dict(tab)[q]
            if not abs(got - cd_node) <= 1e-9 * cd_node + 256 * EPS * max(a for _, _, a in cands):
                ctx.violation("node-value", f"Cd used at tabulated Mach {q} is {got!r}, table says {cd_node!r}", case, mach=q)
                continue
        if not ok:
            ctx.violation("off-curve", f"Cd used at Mach {q!r} ({kind}) is {got!r}; nearest allowed polynomial {best[0]} gives {best[2]!r} "
                                       f"(error {best[1]:.3e}, tolerance {best[3]:.3e})", case, mach=q, kind=kind,
                          candidates=[(n_, v) for n_, v, _ in cands])
    if shipped:
        # ascending from Mach 0, positive, within 5 % of the linear interpolant between neighbouring entries
        if tab[0][0] != 0.0 or any(b[0] <= a[0] for a, b in zip(tab, tab[1:])):
            ctx.violation("shipped.not-ascending-from-0", f"Table{case['table']} is not strictly ascending from Mach 0", case)
        worst = 0.0
        for (m0, c0), (m1, c1) in zip(tab, tab[1:]):
            for j in range(1, 40):
                q = m0 + (m1 - m0) * j / 40
                cd = tc.drag_by_mach(q) * bc / k_hat
                lin = c0 + (c1 - c0) * (q - m0) / (m1 - m0)
                ctx.count("linear_band_points")
                worst = max(worst, abs(cd / lin - 1))
                if not (cd > 0 and abs(cd / lin - 1) <= 0.05):
                    ctx.violation("shipped.linear-band", f"Table{case['table']}: Cd {cd!r} at Mach {q} vs linear interpolant {lin!r}", case, mach=q)
                    break
        ctx.max("shipped_linear_band_dev", worst)


def snapshot_tables():
    return {n: [[p["Mach"], p["CD"]] for p in getattr(pb, "Table" + n)] for n in TABLE_NAMES}


def check_golden(ctx, stage):
    g = golden()
    now = snapshot_tables()
    for n in TABLE_NAMES:
        ctx.count("golden_comparisons")
        if now[n] != g[n]["points"]:
            diff = next((i for i, (a, b) in enumerate(zip(now[n], g[n]["points"])) if a != b), "length")
            ctx.violation("shipped.golden", f"Table{n} differs from the published-table snapshot {stage} (entry {diff})",
                          {"table": n, "stage": stage, "entry": diff})


def battery(ctx):
    """Library calls that take the module-level tables: none may change them."""
    rng = ctx.rng
    for n in TABLE_NAMES:
        t = getattr(pb, "Table" + n)
        dm = DragModel(rng.uniform(0.1, 1.0), t, 150, 0.3, 1.2)
        DragModelMultiBC([BCPoint(0.3, Mach=2.0), BCPoint(0.25, Mach=1.0)], t, 150, 0.3)
        DragModelMultiBC([BCPoint(0.3, V=pb.Velocity.FPS(2500)), BCPoint(0.2, V=pb.Velocity.FPS(1200))], dm.drag_table)
        s = build.shot({"table": n, "bc": 0.3, "mv_fps": 2500.0, "sight_height_in": 2.0})
        c = Calculator()
        c.set_weapon_zero(s, Distance.Yard(100))
        c.fire(s, Distance.Yard(300), Distance.Yard(100), extra_data=True)
        _ = c.cdm
        ctx.count("battery_calls", 6)


def gen_prior(rng):
    n = rng.choice([3, 4, 5])
    machs = sorted({0.0} | {round(rng.uniform(0.3, 6.0), 2) for _ in range(n)})
    cd = round(rng.uniform(0.1, 0.8), 3)
    pr = {"table": [[m, round(cd * rng.uniform(0.8, 1.25), 4)] for m in machs], "bc": round(rng.uniform(0.1, 1.0), 3),
          "mv_fps": round(rng.uniform(400, 3400), 0)}
    if rng.random() < 0.5:
        pr["fire_ft"] = rng.choice([3.0, 30.0, 300.0])
    if rng.random() < 0.7 or "fire_ft" not in pr:
        pr["lookups"] = [round(rng.uniform(0, 6), 3) for _ in range(rng.choice([1, 2, 4]))] + [rng.choice([0.0, round(rng.uniform(0, 6), 3)])]
    return pr


def run(ctx):
    thorough = ctx.tier != "quick"
    if ctx.shard == 0:
        check_golden(ctx, "at import")
    for n in ctx.my(TABLE_NAMES):
        for bc in ([0.05, 0.381, 1.2] if not thorough else [0.05, 0.1, 0.223, 0.381, 0.7, 1.0, 1.2]):
            check_table(ctx, {"table": n, "bc": bc, "tuned_in_place": bc != 0.381, "prior": gen_prior(ctx.rng) if bc != 0.05 else None,
                              "config": CONFIGS[(TABLE_NAMES.index(n) + int(bc * 1000)) % len(CONFIGS)]}, thorough)
    if ctx.shard == 0:
        battery(ctx)
        check_golden(ctx, "after DragModel / DragModelMultiBC / zero / fire calls")
    total = 2500 if not thorough else 40000
    for _ in range(ctx.share(total)):
        if not ctx.time_left():
            break
        check_table(ctx, {"table": gen.custom_table(ctx.rng), "bc": round(ctx.rng.uniform(0.05, 1.2), 4),
                          "tuned_in_place": ctx.rng.random() < 0.5, "prior": gen_prior(ctx.rng) if ctx.rng.random() < 0.4 else None,
                          "config": ctx.rng.choice(CONFIGS) if ctx.rng.random() < 0.3 else None}, thorough)


def replay(ctx, case):
    if "stage" in case:
        check_golden(ctx, case["stage"])
    else:
        check_table(ctx, {"table": case["table"], "bc": case["bc"], "tuned_in_place": case.get("tuned_in_place"),
                          "config": case.get("config"), "prior": case.get("prior")}, True)
