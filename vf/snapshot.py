"""M-SNAP: deep, display-unit-insensitive snapshots of argument / result object graphs.

Quantities are snapshotted by dimension class and raw magnitude (the display unit is deliberately excluded: conversions
and library calls may re-label it), floats bit-exactly (float.hex), containers and plain objects recursively."""
import math

from py_ballisticcalc.unit import AbstractDimension, Unit


def snap(o, zero_sign=True, _depth=0, _seen=None):
    if _depth > 12:
        return "<depth>"
    if isinstance(o, AbstractDimension):
        return ("Q", type(o).__name__, _f(o.raw_value, zero_sign))
    if isinstance(o, bool) or o is None or isinstance(o, str):
        return o
    if isinstance(o, Unit):
        return ("Unit", o.name)
    if isinstance(o, int):
        return _f(float(o), zero_sign) if abs(o) < 2 ** 53 else o
    if isinstance(o, float):
        return _f(o, zero_sign)
    if isinstance(o, (list, tuple)):
        return [snap(x, zero_sign, _depth + 1) for x in o]
    if isinstance(o, dict):
        return {str(k): snap(v, zero_sign, _depth + 1) for k, v in o.items()}
    d = getattr(o, "__dict__", None)
    if d is not None:
        return (type(o).__name__, {k: snap(v, zero_sign, _depth + 1) for k, v in sorted(d.items()) if not callable(v)})
    return repr(o)


def _f(x, zero_sign):
    if x == 0 and not zero_sign:
        return (0.0).hex()
    if math.isnan(x):
        return "nan"
    return float(x).hex()


def diff(a, b, path=""):
    """First difference between two snapshots as (path, a, b) or None."""
    if type(a) is not type(b):
        return path, a, b
    if isinstance(a, (list, tuple)):
        if len(a) != len(b):
            return path + ".len", len(a), len(b)
        for i, (x, y) in enumerate(zip(a, b)):
            d = diff(x, y, f"{path}[{i}]")
            if d:
                return d
        return None
    if isinstance(a, dict):
        if set(a) != set(b):
            return path + ".keys", sorted(set(a) ^ set(b)), None
        for k in a:
            d = diff(a[k], b[k], f"{path}.{k}")
            if d:
                return d
        return None
    return None if a == b else (path, a, b)


def unhex(v):
    try:
        return float.fromhex(v) if isinstance(v, str) and v.startswith(("0x", "-0x")) else v
    except ValueError:
        return v
