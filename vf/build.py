"""Explicit, JSON-able case specs  ->  library objects, always through the public constructors with explicit units.

Shot spec (all magnitudes explicit, units in the key names):
 {"table": "G7" | [[mach, cd], ...], "bc": 0.3, "weight_gr": 168, "diameter_in": .308, "length_in": 1.2,
  "mv_fps": 2600, "sight_height_in": 2.0, "twist_in": 10, "zero_deg": 0.1, "look_deg": 0, "rel_deg": 0,
  "cant_deg": 0,
  "atmo": {"kind": "icao", "alt_ft": 0} | {"kind": "station", "alt_ft":, "p_hpa":, "t_c":, "rh":, "powder_t_c"?}
          | {"kind": "vacuum", "alt_ft":, "t_c":},
  "winds": [[speed_fps, dir_deg, until_ft | null], ...],
  "powder": {"temp_c": 15, "modifier": 0.01, "use": true}?}
"""
import py_ballisticcalc as pb
from py_ballisticcalc import (Ammo, Angular, Atmo, Calculator, Distance, DragModel, Pressure, Shot,
                              Temperature, Vacuum, Velocity, Weapon, Weight, Wind)

TABLE_NAMES = ["G1", "G7", "G2", "G5", "G6", "G8", "GI", "GS", "RA4"]


def table(spec):
    if isinstance(spec, str):
        return getattr(pb, "Table" + spec)
    return [{"Mach": m, "CD": c} for m, c in spec]


def drag_model(s):
    kw = {}
    if s.get("weight_gr") is not None:
        kw["weight"] = Weight.Grain(s["weight_gr"])
    if s.get("diameter_in") is not None:
        kw["diameter"] = Distance.Inch(s["diameter_in"])
    if s.get("length_in") is not None:
        kw["length"] = Distance.Inch(s["length_in"])
    return DragModel(s["bc"], table(s["table"]), **kw)


def atmo(a):
    kind = a["kind"]
    if kind == "icao":
        return Atmo.icao(Distance.Foot(a.get("alt_ft", 0.0)))
    if kind == "station":
        kw = {}
        if a.get("powder_t_c") is not None:
            kw["powder_t"] = Temperature.Celsius(a["powder_t_c"])
        return Atmo(Distance.Foot(a["alt_ft"]), Pressure.hPa(a["p_hpa"]), Temperature.Celsius(a["t_c"]),
                    a.get("rh", 0.0), **kw)
    if kind == "vacuum":
        return Vacuum(Distance.Foot(a.get("alt_ft", 0.0)), Temperature.Celsius(a.get("t_c", 15.0)))
    raise ValueError(kind)


def wind(w):
    speed, direction, until = w
    if until is None:
        return Wind(Velocity.FPS(speed), Angular.Degree(direction))
    return Wind(Velocity.FPS(speed), Angular.Degree(direction), Distance.Foot(until))


def winds(ws):
    return [wind(w) for w in ws]


def ammo(s):
    kw = {}
    p = s.get("powder")
    if p:
        kw = {"powder_temp": Temperature.Celsius(p["temp_c"]), "temp_modifier": p["modifier"],
              "use_powder_sensitivity": bool(p["use"])}
    return Ammo(drag_model(s), Velocity.FPS(s["mv_fps"]), **kw)


def weapon(s):
    return Weapon(Distance.Inch(s.get("sight_height_in", 0.0)), Distance.Inch(s.get("twist_in", 0.0)),
                  Angular.Degree(s.get("zero_deg", 0.0)))


def shot(s):
    ws = s.get("winds")
    return Shot(weapon=weapon(s), ammo=ammo(s),
                look_angle=Angular.Degree(s.get("look_deg", 0.0)),
                relative_angle=Angular.Degree(s.get("rel_deg", 0.0)),
                cant_angle=Angular.Degree(s.get("cant_deg", 0.0)),
                atmo=atmo(s.get("atmo", {"kind": "icao", "alt_ft": 0.0})),
                winds=winds(ws) if ws else None)


def calculator(config=None):
    return Calculator(_config=dict(config)) if config else Calculator()


def reset_globals():
    """Every case starts from the library defaults (the package import may have read a config file)."""
    pb.PreferredUnits.defaults()
    pb.reset_globals()
