"""Explicit, JSON-able case specs  ->  library objects, always through the public constructors with explicit units.

Shot spec (all magnitudes explicit, units in the key names):
 {"table": "G7" | [[mach, cd], ...], "bc": 0.3, "weight_gr": 168, "diameter_in": .308, "length_in": 1.2,
  "mv_fps": 2600, "sight_height_in": 2.0, "twist_in": 10, "zero_deg": 0.1, "look_deg": 0, "rel_deg": 0,
  "cant_deg": 0,
  "atmo": {"kind": "icao", "alt_ft": 0} | {"kind": "station", "alt_ft":, "p_hpa":, "t_c":, "rh":, "powder_t_c"?}
          | {"kind": "vacuum", "alt_ft":, "t_c":},
  "winds": [[speed_fps, dir_deg, until_ft | null], ...],
  "powder": {"temp_c": 15, "modifier": 0.01, "use": true}?}
"""
import py_ballisticcalc as pb
from py_ballisticcalc import (Ammo, Angular, Atmo, Calculator, Distance, DragModel, Pressure, Shot,
                              Temperature, Vacuum, Velocity, Weapon, Weight, Wind)

TABLE_NAMES = ["G1", "G7", "G2", "G5", "G6", "G8", "GI", "GS", "RA4"]


def table(spec):
    if isinstance(spec, str):
        return getattr(pb, "Table" + spec)
    return [{"Mach": m, "CD": c} for m, c in spec]


def drag_model(s):
    kw = {}
    if s.get("weight_gr") is not None:
        kw["weight"] = Weight.Grain(s["weight_gr"])
    if s.get("diameter_in") is not None:
        kw["diameter"] = Distance.Inch(s["diameter_in"])
    if s.get("length_in") is not None:
        kw["length"] = Distance.Inch(s["length_in"])
    return DragModel(s["bc"], table(s["table"]), **kw)


def atmo(a):
    kind = a["kind"]
    if kind == "icao":
        return Atmo.icao(Distance.Foot(a.get("alt_ft", 0.0)))
    if kind == "station":
        kw = {}
        if a.get("powder_t_c") is not None:
            kw["powder_t"] = Temperature.Celsius(a["powder_t_c"])
        return Atmo(Distance.Foot(a["alt_ft"]), Pressure.hPa(a["p_hpa"]), Temperature.Celsius(a["t_c"]),
                    a.get("rh", 0.0), **kw)
    if kind == "vacuum":
        return Vacuum(Distance.Foot(a.get("alt_ft", 0.0)), Temperature.Celsius(a.get("t_c", 15.0)))
    raise ValueError(kind)


def wind(w, max_factor=None):
    speed, direction, until = w
    if until is None:
        return Wind(Velocity.FPS(speed), Angular.Degree(direction))
    if max_factor:
        # the rarely passed keyword: a maximum beyond the explicit until-distance, which must change nothing
        return Wind(Velocity.FPS(speed), Angular.Degree(direction), Distance.Foot(until), max_distance_feet=until * max_factor)
    return Wind(Velocity.FPS(speed), Angular.Degree(direction), Distance.Foot(until))


def winds(ws, max_factor=None):
    return [wind(w, max_factor) for w in ws]


def ammo(s):
    kw = {}
    p = s.get("powder")
    if p:
        kw = {"powder_temp": Temperature.Celsius(p["temp_c"]), "temp_modifier": p["modifier"],
              "use_powder_sensitivity": bool(p["use"])}
    return Ammo(drag_model(s), Velocity.FPS(s["mv_fps"]), **kw)


def weapon(s):
    return Weapon(Distance.Inch(s.get("sight_height_in", 0.0)), Distance.Inch(s.get("twist_in", 0.0)),
                  Angular.Degree(s.get("zero_deg", 0.0)))


def shot(s):
    if s.get("_restate"):
        return _restated_shot(s)
    ws = s.get("winds")
    wl = winds(ws, s.get("wind_max_factor")) if ws else None
    if wl and s.get("relabel_seed") is not None:
        # the caller displays the winds' quantities in units of their choice (<< re-labels in place, magnitudes stay): a physical no-op
        import random  # pylint: disable=import-outside-toplevel
        r = random.Random(s["relabel_seed"])
        for w in wl:
            w.until_distance << pb.Unit[r.choice(["Inch", "Foot", "Yard", "Mile", "Millimeter", "Centimeter", "Meter", "Kilometer", "Line"])]  # pylint: disable=expression-not-assigned
            w.velocity << pb.Unit[r.choice(["MPS", "KMH", "FPS", "MPH", "KT"])]  # pylint: disable=expression-not-assigned
            w.direction_from << pb.Unit[r.choice(["Radian", "Degree", "MOA", "Mil", "MRad", "Thousandth", "OClock"])]  # pylint: disable=expression-not-assigned
    return Shot(weapon=weapon(s), ammo=ammo(s),
                look_angle=Angular.Degree(s.get("look_deg", 0.0)),
                relative_angle=Angular.Degree(s.get("rel_deg", 0.0)),
                cant_angle=Angular.Degree(s.get("cant_deg", 0.0)),
                atmo=atmo(s.get("atmo", {"kind": "icao", "alt_ft": 0.0})),
                winds=wl)


# ----------------------------------------------------------------------------- long-lived-session mode
# A spec carrying "_restate": True is reached the way a long-lived session reaches it: the very same objects (Shot, Weapon,
# Ammo, DragModel and its table list, Wind) first hold other values, are *used* in that state - by a throw-away calculator at
# once, and by every calculator from build.calculator() right before its first real call with that shot - and are then given
# their final values through public attributes (dataclass fields, Shot.winds setter, in-place edits of the drag table).
# Physically the shot is the shot of the spec; anything the library memoised per object or per calculator would be stale.
WARM_ENABLED = True
_WARM = {}          # id(shot) -> (shot, apply_decoy, restore, set of warmed calculator ids)


def _restated_shot(s):
    final = {k: v for k, v in s.items() if k != "_restate"}
    if s["_restate"] == "assign":
        # the objects are constructed holding other values and given their final ones through the public attributes afterwards
        # (a rifle re-described for the next string: BC trued, velocity chronographed, scope re-mounted, rifle re-aimed)
        other = dict(final, bc=final["bc"] * 1.4 + 0.01, mv_fps=final["mv_fps"] * 0.8 + 100.0,
                     sight_height_in=final.get("sight_height_in", 0.0) + 0.7, twist_in=(final.get("twist_in", 0.0) or 9.0) * -1.2,
                     zero_deg=final.get("zero_deg", 0.0) + 0.3, look_deg=final.get("look_deg", 0.0) * 0.5 + 2.0,
                     rel_deg=final.get("rel_deg", 0.0) + 0.5, cant_deg=final.get("cant_deg", 0.0) * 0.5 + 10.0)
        sh = shot(other)
        sh.ammo.dm.BC = final["bc"]
        sh.ammo.mv = Velocity.FPS(final["mv_fps"])
        sh.weapon.sight_height = Distance.Inch(final.get("sight_height_in", 0.0))
        sh.weapon.twist = Distance.Inch(final.get("twist_in", 0.0))
        sh.weapon.zero_elevation = Angular.Degree(final.get("zero_deg", 0.0))
        sh.look_angle = Angular.Degree(final.get("look_deg", 0.0))
        sh.relative_angle = Angular.Degree(final.get("rel_deg", 0.0))
        sh.cant_angle = Angular.Degree(final.get("cant_deg", 0.0))
    else:
        sh = shot(final)              # final state; the decoy state is applied to these same objects
    _WARM[id(sh)] = (sh, final, set())
    _use_in_decoy_state(Calculator(), sh, final)        # object-level memos are filled in the decoy state
    return sh


IN_DECOY = False        # monitors pass through (record nothing) while a decoy state is being computed


def _use_in_decoy_state(calc, sh, final):
    """Put the shot's own objects into another state, use them, and put back exactly what was there before."""
    import warnings
    global IN_DECOY  # pylint: disable=global-statement
    dm = sh.ammo.dm
    had = {"look": sh.look_angle, "rel": sh.relative_angle, "cant": sh.cant_angle, "sh": sh.weapon.sight_height,
           "tw": sh.weapon.twist, "ze": sh.weapon.zero_elevation, "mv": sh.ammo.mv, "pt": sh.ammo.powder_temp,
           "tm": sh.ammo.temp_modifier, "ups": sh.ammo.use_powder_sensitivity, "bc": dm.BC, "w": dm.weight, "d": dm.diameter,
           "l": dm.length, "cds": [p.CD for p in dm.drag_table], "winds": sh._winds,  # pylint: disable=protected-access
           "wind_fields": [(w, w.velocity, w.direction_from, w.until_distance) for w in sh._winds],  # pylint: disable=protected-access
           "atmo": sh.atmo}
    IN_DECOY = True
    try:
        sh.look_angle = Angular.Degree(final.get("look_deg", 0.0) + 3.0)
        sh.relative_angle, sh.cant_angle = Angular.Degree(1.3), Angular.Degree(5.0)
        sh.weapon.sight_height = Distance.Inch(final.get("sight_height_in", 0.0) + 1.0)
        sh.weapon.twist = Distance.Inch((final.get("twist_in", 0.0) or 8.0) * -1.5)
        sh.weapon.zero_elevation = Angular.Degree(0.7)
        sh.ammo.mv = Velocity.FPS(final["mv_fps"] * 0.5 + 400.0)
        sh.ammo.powder_temp = Temperature.Celsius(33.0)
        sh.ammo.temp_modifier, sh.ammo.use_powder_sensitivity = 0.02, True
        sh.atmo = Atmo.icao(Distance.Foot((had["atmo"].altitude >> Distance.Foot) - 2500.0))     # another, lower station
        dm.BC = had["bc"] * 1.7
        dm.weight, dm.diameter, dm.length = Weight.Grain(123.0), Distance.Inch(0.277), Distance.Inch(1.11)
        for p in dm.drag_table:
            p.CD *= 1.3
        ws = had["winds"]
        if ws:
            ws[0].velocity, ws[0].direction_from = Velocity.FPS(17.0), Angular.Degree(222.0)
            ws[0].until_distance = Distance.Foot(1e7)              # the decoy order of the segments differs
        with warnings.catch_warnings():
            warnings.simplefilter("ignore")
            _ = sh.winds
            sh.ammo.get_velocity_for_temp(sh.atmo.powder_temp)
            try:
                Calculator.fire(calc, sh, Distance.Foot(45.0), Distance.Foot(15.0), extra_data=True)
            except Exception:  # pylint: disable=broad-except
                pass
    finally:
        sh.look_angle, sh.relative_angle, sh.cant_angle = had["look"], had["rel"], had["cant"]
        sh.weapon.sight_height, sh.weapon.twist, sh.weapon.zero_elevation = had["sh"], had["tw"], had["ze"]
        sh.ammo.mv, sh.ammo.powder_temp = had["mv"], had["pt"]
        sh.ammo.temp_modifier, sh.ammo.use_powder_sensitivity = had["tm"], had["ups"]
        dm.BC, dm.weight, dm.diameter, dm.length = had["bc"], had["w"], had["d"], had["l"]
        for p, cd in zip(dm.drag_table, had["cds"]):
            p.CD = cd
        sh.atmo = had["atmo"]
        sh._winds = had["winds"]  # pylint: disable=protected-access
        for w, v, d, u in had["wind_fields"]:
            w.velocity, w.direction_from, w.until_distance = v, d, u
        IN_DECOY = False


class _SessionCalculator(Calculator):
    """A Calculator that, before its first real call with a 'restated' shot, has already computed that same Shot object
    (same DragModel, table, winds objects) in its decoy state."""

    def _vf_warm(self, sh):
        entry = _WARM.get(id(sh)) if WARM_ENABLED else None
        if entry is not None and entry[0] is sh and id(self) not in entry[2]:
            entry[2].add(id(self))
            _use_in_decoy_state(self, sh, entry[1])

    def fire(self, shot, *a, **kw):  # pylint: disable=arguments-differ,redefined-outer-name
        self._vf_warm(shot)
        return super().fire(shot, *a, **kw)

    def barrel_elevation_for_target(self, shot, *a, **kw):  # pylint: disable=arguments-differ,redefined-outer-name
        self._vf_warm(shot)
        return super().barrel_elevation_for_target(shot, *a, **kw)


def calculator(config=None):
    return _SessionCalculator(_config=dict(config)) if config else _SessionCalculator()


def reset_globals():
    """Every case starts from the library defaults (the package import may have read a config file)."""
    _WARM.clear()
    pb.PreferredUnits.defaults()
    pb.reset_globals()
