"""Runtime-monitoring verification framework for py-ballisticcalc (see ../DESIGN.md)."""
