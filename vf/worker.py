"""Worker subprocess entry: python -m vf.worker --prop C06 ..."""
import sys
from vf.harness import worker_main

if __name__ == "__main__":
    sys.exit(worker_main())
