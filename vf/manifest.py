"""Regenerates /verif/MANIFEST.json from the table below:  /venv/bin/python -m vf.manifest
A property is claimed when it has an entry in CHECKS *and* its module vf/checks/cNN.py exists; every other
property of properties.jsonl is listed under not_applicable with the reason given in PENDING."""
import json
import os

ROOT = os.path.dirname(os.path.dirname(os.path.abspath(__file__)))
PY = "/venv/bin/python"

BASELINE_OFF = ("cd /repo && /venv/bin/python -m pytest -ra -q -p no:cacheprovider --timeout=900 "
                "--continue-on-collection-errors")

TRUSTED_COMMON = ("Pure-Python backend only (Cython backend cannot be built offline); held = held on the executions "
                  "listed in the evidence counters, nothing is claimed about paths the generators never drive.")

# id -> (technique, level text, level note, DESIGN.md section)
CHECKS = {
    "C06": ("exhaustive unit pairs/triples x sampled magnitudes on the real conversion functions, oracle = exact "
            "SI-definition table (Fractions)",
            "Every ordered pair and triple of the 41 units is executed on the real conversion code for a set of "
            "magnitudes and compared with an independently written table of SI definitions (1e-6 relative), round "
            "trips and transitivity to 16 ulp x condition number of the tangent maps.  The unit space is enumerated "
            "completely, magnitudes are sampled; the conversions are piecewise-linear/affine/tan so sampling "
            "magnitudes is adequate.",
            "Trusted base: vf/refs_si.py (exact inch, pound, grain, nmi, g0, conventional mmHg; NATO mil). "
            "Tangent units are exercised only for angles they can express (|angle| < 1.5 rad).",
            "3/C06"),
}

PENDING = {}


def main():
    props = [json.loads(line) for line in open(os.path.join(ROOT, "properties.jsonl"), encoding="utf-8")]
    checks, na = [], []
    for p in props:
        pid = p["id"]
        mod = os.path.join(ROOT, "vf", "checks", pid.lower() + ".py")
        if pid in CHECKS and os.path.exists(mod):
            tech, text, note, ref = CHECKS[pid]
            checks.append({
                "property_id": pid,
                "quick_cmd": f"{PY} -m vf.run {pid} --tier quick",
                "thorough_cmd": f"{PY} -m vf.run {pid} --tier thorough",
                "evidence_file": f"/verif/evidence/{pid}.json",
                "replay_cmd_template": f"{PY} -m vf.run --replay {{path}}",
                "engine": "vf",
                "level_claimed": {"category": "exploration", "text": text, "design_ref": f"DESIGN.md section {ref}"},
                "level_note": note + "  " + TRUSTED_COMMON,
                "technique": "runtime monitoring: " + tech,
            })
        else:
            na.append({"property_id": pid,
                       "reason": PENDING.get(pid, "runtime-monitoring check designed (DESIGN.md section 3) but not "
                                                  "built/registered yet; not claimed until it runs clean on both tiers")})
    manifest = {
        "version": 1,
        "setup_cmd": ("/venv/bin/python -m pip install -q --no-index --find-links /opt/veriftools/wheels "
                      "--target /verif/.deps icontract || true"),
        "hooks": {
            "guard": "PYBC_VERIF",
            "enable": ("no in-repo hooks: every monitor is attached from the harness at run time (module-global "
                       "rebinding, wrappers, icontract decorators, sys.monitoring); checks import /repo's working tree "
                       "via PYTHONPATH in fresh subprocesses"),
            "baseline_off_cmd": BASELINE_OFF,
            "source_commits": [],
            "add_only": True,
        },
        "engines": [{"name": "vf", "path": "/verif/vf", "serves_properties": [c["property_id"] for c in checks],
                     "kind_free_text": "python runtime-monitoring harness: sharded subprocess workers execute the real "
                                       "library on generated/hostile workloads under monitors; independent reference "
                                       "models decide every observed event"}],
        "checks": checks,
        "notes": ("Exit codes: 0 held on everything explored, 1 VIOLATION, 2 INCONCLUSIVE (a deciding monitor observed "
                  "nothing / watchdog).  VERIF_SEED selects the workload.  known_findings.json lists genuine defects "
                  "recorded rather than repaired and the fix: commits."),
        "not_applicable": na,
    }
    with open(os.path.join(ROOT, "MANIFEST.json"), "w", encoding="utf-8") as fp:
        json.dump(manifest, fp, indent=1)
    print(f"claimed {len(checks)}: {[c['property_id'] for c in checks]}; not claimed {len(na)}")


if __name__ == "__main__":
    main()
