"""Regenerates /verif/MANIFEST.json from the table below:  /venv/bin/python -m vf.manifest
A property is claimed when it has an entry in CHECKS *and* its module vf/checks/cNN.py exists; every other
property of properties.jsonl is listed under not_applicable with the reason given in PENDING."""
import json
import os

ROOT = os.path.dirname(os.path.dirname(os.path.abspath(__file__)))
PY = "/venv/bin/python"

BASELINE_OFF = ("cd /repo && /venv/bin/python -m pytest -ra -q -p no:cacheprovider --timeout=900 "
                "--continue-on-collection-errors")

TRUSTED_COMMON = ("Pure-Python backend only (Cython backend cannot be built offline); held = held on the executions "
                  "listed in the evidence counters, nothing is claimed about paths the generators never drive.")

# id -> (technique, level text, level note, DESIGN.md section)
CHECKS = {
    "C06": ("exhaustive unit pairs/triples x sampled magnitudes on the real conversion functions, oracle = exact "
            "SI-definition table (Fractions)",
            "Every ordered pair and triple of the 41 units is executed on the real conversion code for a set of "
            "magnitudes and compared with an independently written table of SI definitions (1e-6 relative), round "
            "trips and transitivity to 16 ulp x condition number of the tangent maps.  The unit space is enumerated "
            "completely, magnitudes are sampled; the conversions are piecewise-linear/affine/tan so sampling "
            "magnitudes is adequate.",
            "Trusted base: vf/refs_si.py (exact inch, pound, grain, nmi, g0, conventional mmHg; NATO mil). "
            "Tangent units are exercised only for angles they can express (|angle| < 1.5 rad).",
            "3/C06"),
    "C08": ("grid + random sampling of the real Atmo/Vacuum objects against an independently written ISA model and "
            "the statement's self-consistency relations",
            "The real atmosphere code is executed on an altitude grid (-1400..36000 ft) and on random station/query pairs, "
            "(T,P,RH) pairs, humidity conventions and vacuum stations; ISA values to 1e-4, cross-altitude consistency to "
            "1e-4, exact station values, the +-30 ft seam bounded by the 30-ft lapse computed from the station's own values, "
            "strict monotonicity, fraction/percent equivalence, rejections.  Inputs are low-dimensional and the functions "
            "smooth, so dense sampling is adequate.",
            "Trusted base: ISA constants in vf/checks/c08.py.  At exactly 30 ft (+-1e-6) either branch is accepted.",
            "3/C08"),
    "C09": ("node / one-ulp-either-side / midpoint sweep of the real TrajectoryCalc.drag_by_mach after the solver's own "
            "_init_trajectory, oracle = Lagrange polynomials + golden table snapshot + rho0*pi/1152",
            "For the nine shipped tables and hundreds of random custom tables the drag the solver actually uses is read "
            "back at every node, one ulp either side, every midpoint and its neighbours, interior and out-of-table points, "
            "and must lie on one of the polynomials the statement allows (1e-9 + rounding amplification); the retardation "
            "constant and BC division are checked from the node values; shipped tables are compared with a golden snapshot "
            "before and after a battery of library calls and against the 5 % linear band.",
            "Trusted base: vf/golden/drag_tables.json (sha-256 per table) as 'the published tables'; rho0 = 0.076474 lb/ft^3.",
            "3/C09"),
    "C13": ("history monitor with a shadow model over a pool of quantities (random op sequences on the real objects, "
            "whole pool re-read bit-exactly after every operation)",
            "Random histories of conversions, reads, formatting, hashing, comparisons, foreign-unit reads and library calls "
            "run on a pool of 30 real quantities; a shadow records every quantity's value in every unit of its dimension "
            "and its hash at construction; after every operation the entire pool is re-read and compared bit-for-bit, "
            "comparisons are checked against raw magnitudes, equal magnitudes must hash/set-collapse equally and every "
            "foreign-unit read must raise UnitConversionError.",
            "Shadow values are the library's own answers at construction (immutability, not SI accuracy = C06). "
            "Cross-dimension equality between quantities is not asserted.",
            "3/C13"),
    "C14": ("effective-BC law at every table node + deep input snapshots before/after + repeated construction on the real "
            "DragModelMultiBC",
            "Random BC point lists (by Mach / velocity in any unit, shuffled) x table forms (dict list, DragDataPoint list "
            "taken from a donor model, fresh points, custom tables) x with/without weight: every node's effective BC is "
            "compared with an independent clamped piecewise-linear interpolation (1e-9); table, points and donor model are "
            "snapshotted bit-exactly around two successive builds; single-point models are compared with DragModel "
            "including a fired trajectory.",
            "Velocity points converted with the standard 15 C speed of sound; order of the caller's point list not asserted.",
            "3/C14"),
    "C16": ("invariant checker on every DangerSpace returned by the real HitResult.danger_space over generated "
            "trajectories and requests",
            "Extra-data trajectories (flat zeroed, arcing, inclined, sight above/below bore, steps 1-100 ft) are queried at "
            "ranges on both branches with increasing target heights in all distance units; each result is checked row by "
            "row against the statement (bracketing rows, every in-between row inside the target, bounds outside or end "
            "rows, monotone in height), plus the two rejections.",
            "'drop' = drop relative to the sight line (target_drop).",
            "3/C16"),
    "C17": ("algebraic checker of the linear law / calibration reproduction on the real Ammo, and of the launch speed "
            "observed in the first row of a real fire()",
            "Thousands of random (velocity, temperature, modifier | second measurement) cases in all units, bare or "
            "explicit, all four sign combinations of the calibration pair, degenerate pairs, and launches under "
            "atmospheres with and without explicit powder temperature.",
            "The law is evaluated in the library's own m/s / Celsius reading of the inputs (unit accuracy is C06).",
            "3/C17"),
    "C19": ("algebraic checker of clicks = correction / effective click on the real Sight for random sights and "
            "corrections (direct and from real trajectory rows)",
            "Random FFP/SFP/LWIR sights with unequal click sizes in all 9 angular units (bare or explicit), distances in "
            "all units, magnifications, corrections of both signs, linearity and sign, and the four construction rejections.",
            "Click sizes converted with R-SI; SFP product accepted in either linear reading (differ < 1e-6 for tangent units only).",
            "3/C19"),
    "C20": ("differential against a sequential scan on synthetic (real row constructor) and real trajectories for every "
            "look-up function",
            "Synthetic trajectories of length 0..40 with repeated values and real fired trajectories are queried below / "
            "on / between / beyond every recorded value in all distance units; every accessor and helper is compared with "
            "a 5-line sequential scan, including sentinels (-1, NaN, ArithmeticError), ValueError on negative inputs, "
            "nearest-time ties and the apex helper on single-peaked sequences.",
            "The scan applies the same comparison predicate row by row.",
            "3/C20"),
    "C01": ("differential run of the real solver at 3-4 step sizes against an independent RK4 integration of the stated ODE "
            "(and the closed-form parabola in vacuum); bounded convergence test",
            "Hundreds of random shots (tables, BC, speeds, look/zero/relative/cant angles, atmospheres incl. vacuum, 0-4 wind "
            "segments with boundaries on/inside/beyond the range) are fired by the real solver at h0, h0/2, h0/4 (thorough h0/8, "
            "four base steps); every recorded row is compared component-wise (height, lateral, speed, time) with an RK4 "
            "reference written from the property text: default-step error <= 3 x change-on-halving + floor, error shrinks by "
            ">= 1/4 per halving, vacuum rows within the exact first-order Euler error of the parabola, muzzle row = stated "
            "initial state.  'Converges' is decided on 2-3 halvings only (bounded restatement).",
            "Reference certifies itself by a second run at 2 h_ref (difference x10 enters every tolerance); drag_by_mach and the "
            "atmosphere's density/sound-speed function are black boxes (C08/C09); twist 0 (spin drift is C05).",
            "3/C01"),
    "C02": ("fire-back of every returned zero with the step trace of that fire (M-STEP) bounding the allowed miss; bracketing "
            "search with Calculator.fire as a black box adjudicates every raise; stored zero compared around failures",
            "Random un-canted shots x look angles to +-59 deg x distances 5 yd .. reach x winds x sight heights x stored zeros x both "
            "APIs: each returned elevation is fired back and the row at the aim point must be within accuracy + 1.25 x (largest "
            "overshoot the finder's end condition permits x relative slope + curvature remainder); each raise is judged by an "
            "independent bracket/bisect search (violation only if a robust solution exists); failed attempts must leave the stored "
            "zero untouched; returned angles for unreachable targets are violations.",
            "Known finding C02.iteration-cap is classified by mechanism (cap hit, reachable, cured by cap x 10, strongly curved "
            "trajectory).  Precondition judged with one fire along the sight line.",
            "3/C02"),
    "C03": ("row-grid checker on every successful plain fire(); per-step advance and time step from the M-STEP trace of that "
            "same fire",
            "Thousands of fires in the decisive classes (tail wind on slow projectiles, head, cross), ranges feet to miles, steps "
            "that do/do not divide the range, in any unit or bare, default step, time steps: exactly one row per multiple k*step "
            "(1e-9), at most one further multiple within one integration step, strictly increasing distance and time, muzzle row = "
            "canted sight offset / launch speed / t=0, 11 rows by default, time gaps <= step + 2 integration steps.",
            "Only fires that return normally and end moving forward are judged; requested range/step read through the library's "
            "own conversion (C06).",
            "3/C03"),
    "C04": ("step-budget monitor (one Atmo call per integration step, M-ATMO) enforcing a bounded restatement of termination + "
            "truthfulness checker of RangeError + twin run with bounded-relaxed limits",
            "Hostile launches (vertical, downward, muzzle speeds 0..51 ft/s, strong head winds) x limit triples x ranges beyond "
            "reach x plain/extra: fire() must finish within 1.5 x P/calc_step + 1000 steps (P from an independent coarse RK4 flight "
            "to the first limit of this configuration); on RangeError the reason must be the first limit (velocity, drop, altitude) "
            "the last row really violates, last_distance that row's, earlier rows respect all limits and are bit-identical to the "
            "same request on a twin calculator with relaxed limits; normal returns reach the range.",
            "'Terminates' is decided only up to the step budget; 'without the limit' = vmin 0 and drop/altitude 2000 ft lower.",
            "3/C04"),
    "C05": ("contract (icontract postconditions, M-ROW) on the real create_trajectory_row for every row created anywhere + "
            "API-level recomputation with the Shot in hand (local speed of sound, Litz/Miller spin drift, twist-0 twin)",
            "Every row the solver creates (range, interpolated, event, terminal, 'second point') passes through a postcondition "
            "with its state in hand: Mach, energy, OGW, target drop, look distance, both adjustments (exactly 0 at x=0), angle, "
            "windage = z + spin drift, round trips, and the spin drift handed in vs Litz/Miller (Sg from the velocity actually "
            "fired, powder sensitivity on in 30 % of the shots); returned rows are re-checked "
            "against the atmosphere's local speed of sound and a twist-0 twin run.",
            "Energy accepted between the documented constant 450400 and the exact 2*7000*g0; spin-drift clause skipped in vacuum; "
            "zero contract evaluations => inconclusive.",
            "3/C05"),
    "C07": ("differential run of an all-explicit workload under defaults / 3 presets / random slot assignments (bit equality of "
            "every number) + bare-vs-explicit twin construction at every float-or-quantity parameter site (deep snapshots)",
            "(A) random workloads touching every result-producing API with only explicit quantities are re-executed under the "
            "shipped presets, random assignments of all 15 slots and 'staged sessions' in which the assignment is switched "
            "between construction / computation steps; every number (rows, zero, danger space indices, click "
            "counts, model tables, atmosphere caches) must be bit-identical to the default run. (B) 42 parameter sites x 8 values "
            "(0, -0.0, negatives, ...) x assignments: bare number vs slot_unit(number) must give equal deep snapshots or the same "
            "exception type.",
            "fire(trajectory_step=0) is the documented 'not given' sentinel; danger_space target_height accepted in either the "
            "distance or target_height slot; signed zeros normalised in part B.",
            "3/C07"),
    "C10": ("history monitor + executable model (same op on a deep copy with a fresh calculator) with deep argument/table/global "
            "snapshots around every op; thread rounds with switch interval 1e-6 and sys.monitoring yield injection",
            "Random histories of fire/zero/elevation/danger-space/model-construction/raising ops over pools of shots sharing "
            "weapons, ammo, atmospheres and DragDataPoint objects and 4 differently configured long-lived calculators: every result "
            "bit-identical to the model, nothing in the pool / module tables / process globals changes except a zeroed weapon's "
            "stored zero.  Thread rounds: 8 threads own a calculator each, zero private copies and fire shared shots while LINE "
            "callbacks inject yields inside library code; results equal sequential goldens; evidence reports distinct switch sites.",
            "Only schedules of calculators owned by distinct threads (as stated); interleavings are sampled, not enumerated.",
            "3/C10"),
    "C11": ("metamorphic: same shot/config fired under families of requests, rows at common distances compared",
            "For each random shot one long-lived calculator (optionally after a zeroing) serves a base request and variants: extra data, longer range, coarser/finer/non-nested/sub-maximum "
            "steps, time steps and beyond-reach ranges: rows at the same distance agree in 9 columns to 1e-9, subset relations hold, "
            "extra-data output = plain rows + event-flagged rows only.",
            "Rows matched by distance among RANGE-flagged rows; terminal and flag-less 'second point' rows excluded.",
            "3/C11"),
    "C12": ("exact metamorphic relations between runs on related wind lists (bit equality) + sign relations vs the no-wind twin + "
            "RK4 reference for segment boundaries",
            "Permutation (distinct until-distances), zero-speed == none, appended zero wind, split segment, causality beyond D, "
            "left-right mirror (windage negated, all else equal), cross/head/tail signs on flat fire, a non-vacuity relation "
            "(different winds beyond D do change rows beyond D), and windage/time at every row against the independent "
            "reference with winds applied by segment in order of distance.",
            "Sign of drop judged only where the physical effect exceeds the solver's own wind-dependent first-order error; sign "
            "relations use a horizontal bore and a shipped table (drag force increasing with air speed).",
            "3/C12"),
    "C15": ("hooked integration trace (M-STEP) of the very fire under test vs the emitted flagged rows; crossings recomputed from "
            "the trace alone",
            "Random shots (sight above/on/below bore, barrel above/below the line, look +-45 deg, zeroed/un-zeroed, super/trans/"
            "subsonic, dives that accelerate up through Mach 1, lofted low-drag projectiles that fall through Mach 1 twice, "
            "early-ending ranges/limits) fired with extra data: exactly one "
            "ZERO_UP / ZERO_DOWN row iff the trace crosses the sight line up / then down beyond the muzzle, one MACH row per "
            "falling sonic crossing, each inside its crossing step (time window, distance to the line <= one step x relative slope, "
            "|Mach-1| <= one step's deceleration), time order, HitResult.zeros().",
            "Launch exactly on the line: first-step events not asserted either way; terminal RangeError row not judged.",
            "3/C15"),
    "C18": ("config differential inside random set/reset/create histories observed through the per-step advance of traced fires "
            "(M-STEP), limits, vacuum gravity, zero accuracy / cap; exhaustive name x case x blanks x channel parser sweep",
            "Each calculator's effective maximum step is observed (no advance above it, median advance = half of it) inside random "
            "histories of global-step set/reset and calculator creation; limits/gravity/accuracy/cap compared between an overriding "
            "and a default calculator on the same shot; defaults read from a fresh interpreter; non-positive global steps rejected; "
            "dict mutation after construction ineffective.  Parsing: all 41 enumeration names + 116 documented aliases x 5 letter "
            "cases x 3 blank forms through _parse_unit, PreferredUnits.set, basicConfig(dict), TOML preferred_units, TOML "
            "calculator step units, _parse_value (4 numeric prefixes) - exhaustive; unknown names must raise or change nothing.",
            "Known finding C18.slow-air-speed-step classified by start-of-step air speed (v^2 < 1.1 g calc_step); alias "
            "expectations from vf/golden/unit_aliases.json.",
            "3/C18"),
}

PENDING = {}


def main():
    props = [json.loads(line) for line in open(os.path.join(ROOT, "properties.jsonl"), encoding="utf-8")]
    checks, na = [], []
    for p in props:
        pid = p["id"]
        mod = os.path.join(ROOT, "vf", "checks", pid.lower() + ".py")
        if pid in CHECKS and os.path.exists(mod):
            tech, text, note, ref = CHECKS[pid]
            checks.append({
                "property_id": pid,
                "quick_cmd": f"{PY} -m vf.run {pid} --tier quick",
                "thorough_cmd": f"{PY} -m vf.run {pid} --tier thorough",
                "evidence_file": f"/verif/evidence/{pid}.json",
                "replay_cmd_template": f"{PY} -m vf.run --replay {{path}}",
                "engine": "vf",
                "level_claimed": {"category": "exploration", "text": text, "design_ref": f"DESIGN.md section {ref}"},
                "level_note": note + "  " + TRUSTED_COMMON,
                "technique": "runtime monitoring: " + tech,
            })
        else:
            na.append({"property_id": pid,
                       "reason": PENDING.get(pid, "runtime-monitoring check designed (DESIGN.md section 3) but not "
                                                  "built/registered yet; not claimed until it runs clean on both tiers")})
    manifest = {
        "version": 1,
        "setup_cmd": ("/venv/bin/python -m pip install -q --no-index --find-links /opt/veriftools/wheels "
                      "--target /verif/.deps icontract || true"),
        "hooks": {
            "guard": "PYBC_VERIF",
            "enable": ("no in-repo hooks: every monitor is attached from the harness at run time (module-global "
                       "rebinding, wrappers, icontract decorators, sys.monitoring); checks import /repo's working tree "
                       "via PYTHONPATH in fresh subprocesses"),
            "baseline_off_cmd": BASELINE_OFF,
            "source_commits": [],
            "add_only": True,
        },
        "engines": [{"name": "vf", "path": "/verif/vf", "serves_properties": [c["property_id"] for c in checks],
                     "kind_free_text": "python runtime-monitoring harness: sharded subprocess workers execute the real "
                                       "library on generated/hostile workloads under monitors; independent reference "
                                       "models decide every observed event"}],
        "checks": checks,
        "notes": ("Exit codes: 0 held on everything explored, 1 VIOLATION, 2 INCONCLUSIVE (a deciding monitor observed "
                  "nothing / watchdog).  VERIF_SEED selects the workload.  known_findings.json lists genuine defects "
                  "recorded rather than repaired and the fix: commits."),
        "not_applicable": na,
    }
    with open(os.path.join(ROOT, "MANIFEST.json"), "w", encoding="utf-8") as fp:
        json.dump(manifest, fp, indent=1)
    print(f"claimed {len(checks)}: {[c['property_id'] for c in checks]}; not claimed {len(na)}")


if __name__ == "__main__":
    main()
