"""Regenerates /verif/MANIFEST.json from the table below:  /venv/bin/python -m vf.manifest
A property is claimed when it has an entry in CHECKS *and* its module vf/checks/cNN.py exists; every other
property of properties.jsonl is listed under not_applicable with the reason given in PENDING."""
import json
import os

ROOT = os.path.dirname(os.path.dirname(os.path.abspath(__file__)))
PY = "/venv/bin/python"

BASELINE_OFF = ("cd /repo && /venv/bin/python -m pytest -ra -q -p no:cacheprovider --timeout=900 "
                "--continue-on-collection-errors")

TRUSTED_COMMON = ("Pure-Python backend only (Cython backend cannot be built offline); held = held on the executions "
                  "listed in the evidence counters, nothing is claimed about paths the generators never drive.")

# id -> (technique, level text, level note, DESIGN.md section)
CHECKS = {
    "C06": ("exhaustive unit pairs/triples x sampled magnitudes on the real conversion functions, oracle = exact "
            "SI-definition table (Fractions)",
            "Every ordered pair and triple of the 41 units is executed on the real conversion code for a set of "
            "magnitudes and compared with an independently written table of SI definitions (1e-6 relative), round "
            "trips and transitivity to 16 ulp x condition number of the tangent maps.  The unit space is enumerated "
            "completely, magnitudes are sampled; the conversions are piecewise-linear/affine/tan so sampling "
            "magnitudes is adequate.",
            "Trusted base: vf/refs_si.py (exact inch, pound, grain, nmi, g0, conventional mmHg; NATO mil). "
            "Tangent units are exercised only for angles they can express (|angle| < 1.5 rad).",
            "3/C06"),
    "C08": ("grid + random sampling of the real Atmo/Vacuum objects against an independently written ISA model and "
            "the statement's self-consistency relations",
            "The real atmosphere code is executed on an altitude grid (-1400..36000 ft) and on random station/query pairs, "
            "(T,P,RH) pairs, humidity conventions and vacuum stations; ISA values to 1e-4, cross-altitude consistency to "
            "1e-4, exact station values, the +-30 ft seam bounded by the 30-ft lapse computed from the station's own values, "
            "strict monotonicity, fraction/percent equivalence, rejections.  Inputs are low-dimensional and the functions "
            "smooth, so dense sampling is adequate.",
            "Trusted base: ISA constants in vf/checks/c08.py.  At exactly 30 ft (+-1e-6) either branch is accepted.",
            "3/C08"),
    "C09": ("node / one-ulp-either-side / midpoint sweep of the real TrajectoryCalc.drag_by_mach after the solver's own "
            "_init_trajectory, oracle = Lagrange polynomials + golden table snapshot + rho0*pi/1152",
            "For the nine shipped tables and hundreds of random custom tables the drag the solver actually uses is read "
            "back at every node, one ulp either side, every midpoint and its neighbours, interior and out-of-table points, "
            "and must lie on one of the polynomials the statement allows (1e-9 + rounding amplification); the retardation "
            "constant and BC division are checked from the node values; shipped tables are compared with a golden snapshot "
            "before and after a battery of library calls and against the 5 % linear band.",
            "Trusted base: vf/golden/drag_tables.json (sha-256 per table) as 'the published tables'; rho0 = 0.076474 lb/ft^3.",
            "3/C09"),
    "C13": ("history monitor with a shadow model over a pool of quantities (random op sequences on the real objects, "
            "whole pool re-read bit-exactly after every operation)",
            "Random histories of conversions, reads, formatting, hashing, comparisons, foreign-unit reads and library calls "
            "run on a pool of 30 real quantities; a shadow records every quantity's value in every unit of its dimension "
            "and its hash at construction; after every operation the entire pool is re-read and compared bit-for-bit, "
            "comparisons are checked against raw magnitudes, equal magnitudes must hash/set-collapse equally and every "
            "foreign-unit read must raise UnitConversionError.",
            "Shadow values are the library's own answers at construction (immutability, not SI accuracy = C06). "
            "Cross-dimension equality between quantities is not asserted.",
            "3/C13"),
    "C14": ("effective-BC law at every table node + deep input snapshots before/after + repeated construction on the real "
            "DragModelMultiBC",
            "Random BC point lists (by Mach / velocity in any unit, shuffled) x table forms (dict list, DragDataPoint list "
            "taken from a donor model, fresh points, custom tables) x with/without weight: every node's effective BC is "
            "compared with an independent clamped piecewise-linear interpolation (1e-9); table, points and donor model are "
            "snapshotted bit-exactly around two successive builds; single-point models are compared with DragModel "
            "including a fired trajectory.",
            "Velocity points converted with the standard 15 C speed of sound; order of the caller's point list not asserted.",
            "3/C14"),
    "C16": ("invariant checker on every DangerSpace returned by the real HitResult.danger_space over generated "
            "trajectories and requests",
            "Extra-data trajectories (flat zeroed, arcing, inclined, sight above/below bore, steps 1-100 ft) are queried at "
            "ranges on both branches with increasing target heights in all distance units; each result is checked row by "
            "row against the statement (bracketing rows, every in-between row inside the target, bounds outside or end "
            "rows, monotone in height), plus the two rejections.",
            "'drop' = drop relative to the sight line (target_drop).",
            "3/C16"),
    "C17": ("algebraic checker of the linear law / calibration reproduction on the real Ammo, and of the launch speed "
            "observed in the first row of a real fire()",
            "Thousands of random (velocity, temperature, modifier | second measurement) cases in all units, bare or "
            "explicit, all four sign combinations of the calibration pair, degenerate pairs, and launches under "
            "atmospheres with and without explicit powder temperature.",
            "The law is evaluated in the library's own m/s / Celsius reading of the inputs (unit accuracy is C06).",
            "3/C17"),
    "C19": ("algebraic checker of clicks = correction / effective click on the real Sight for random sights and "
            "corrections (direct and from real trajectory rows)",
            "Random FFP/SFP/LWIR sights with unequal click sizes in all 9 angular units (bare or explicit), distances in "
            "all units, magnifications, corrections of both signs, linearity and sign, and the four construction rejections.",
            "Click sizes converted with R-SI; SFP product accepted in either linear reading (differ < 1e-6 for tangent units only).",
            "3/C19"),
    "C20": ("differential against a sequential scan on synthetic (real row constructor) and real trajectories for every "
            "look-up function",
            "Synthetic trajectories of length 0..40 with repeated values and real fired trajectories are queried below / "
            "on / between / beyond every recorded value in all distance units; every accessor and helper is compared with "
            "a 5-line sequential scan, including sentinels (-1, NaN, ArithmeticError), ValueError on negative inputs, "
            "nearest-time ties and the apex helper on single-peaked sequences.",
            "The scan applies the same comparison predicate row by row.",
            "3/C20"),
}

PENDING = {}


def main():
    props = [json.loads(line) for line in open(os.path.join(ROOT, "properties.jsonl"), encoding="utf-8")]
    checks, na = [], []
    for p in props:
        pid = p["id"]
        mod = os.path.join(ROOT, "vf", "checks", pid.lower() + ".py")
        if pid in CHECKS and os.path.exists(mod):
            tech, text, note, ref = CHECKS[pid]
            checks.append({
                "property_id": pid,
                "quick_cmd": f"{PY} -m vf.run {pid} --tier quick",
                "thorough_cmd": f"{PY} -m vf.run {pid} --tier thorough",
                "evidence_file": f"/verif/evidence/{pid}.json",
                "replay_cmd_template": f"{PY} -m vf.run --replay {{path}}",
                "engine": "vf",
                "level_claimed": {"category": "exploration", "text": text, "design_ref": f"DESIGN.md section {ref}"},
                "level_note": note + "  " + TRUSTED_COMMON,
                "technique": "runtime monitoring: " + tech,
            })
        else:
            na.append({"property_id": pid,
                       "reason": PENDING.get(pid, "runtime-monitoring check designed (DESIGN.md section 3) but not "
                                                  "built/registered yet; not claimed until it runs clean on both tiers")})
    manifest = {
        "version": 1,
        "setup_cmd": ("/venv/bin/python -m pip install -q --no-index --find-links /opt/veriftools/wheels "
                      "--target /verif/.deps icontract || true"),
        "hooks": {
            "guard": "PYBC_VERIF",
            "enable": ("no in-repo hooks: every monitor is attached from the harness at run time (module-global "
                       "rebinding, wrappers, icontract decorators, sys.monitoring); checks import /repo's working tree "
                       "via PYTHONPATH in fresh subprocesses"),
            "baseline_off_cmd": BASELINE_OFF,
            "source_commits": [],
            "add_only": True,
        },
        "engines": [{"name": "vf", "path": "/verif/vf", "serves_properties": [c["property_id"] for c in checks],
                     "kind_free_text": "python runtime-monitoring harness: sharded subprocess workers execute the real "
                                       "library on generated/hostile workloads under monitors; independent reference "
                                       "models decide every observed event"}],
        "checks": checks,
        "notes": ("Exit codes: 0 held on everything explored, 1 VIOLATION, 2 INCONCLUSIVE (a deciding monitor observed "
                  "nothing / watchdog).  VERIF_SEED selects the workload.  known_findings.json lists genuine defects "
                  "recorded rather than repaired and the fix: commits."),
        "not_applicable": na,
    }
    with open(os.path.join(ROOT, "MANIFEST.json"), "w", encoding="utf-8") as fp:
        json.dump(manifest, fp, indent=1)
    print(f"claimed {len(checks)}: {[c['property_id'] for c in checks]}; not claimed {len(na)}")


if __name__ == "__main__":
    main()
