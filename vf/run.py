"""CLI:  python -m vf.run C07 --tier quick|thorough      (seed from --seed or env VERIF_SEED, default 0)
         python -m vf.run --replay replay/C07/<file>.json
Exit 0 = held on everything explored, 1 = VIOLATION line(s) printed, 2 = INCONCLUSIVE."""
import argparse
import warnings
import json
import os
import sys

warnings.simplefilter("ignore")
from vf.harness import run_check  # noqa: E402


def main(argv=None) -> int:
    ap = argparse.ArgumentParser()
    ap.add_argument("prop", nargs="?")
    ap.add_argument("--tier", default=os.environ.get("VERIF_TIER") or "quick", choices=["quick", "thorough"])
    ap.add_argument("--seed", type=int, default=None)
    ap.add_argument("--replay")
    a = ap.parse_args(argv)
    seed = a.seed if a.seed is not None else int(os.environ.get("VERIF_SEED", "0") or 0)
    if a.replay:
        with open(a.replay, encoding="utf-8") as fp:
            rec = json.load(fp)
        return run_check(rec["property"], rec.get("tier", "quick"), rec.get("seed", seed), replay_path=a.replay)
    if not a.prop:
        ap.error("property id required")
    return run_check(a.prop.upper(), a.tier, seed)


if __name__ == "__main__":
    sys.exit(main())
