"""Monitors attached to the real code from outside (no edit of the repository).

M-STEP  StepTrace      wrapper on _TrajectoryDataFilter.should_record: every integration point handed to the filter
M-ATMO  StepCounter    wrapper on Atmo.get_density_factor_and_mach_for_altitude: one call per integration step (also
                       during zeroing, where no filter is active); step counter, altitude range, step-budget abort
M-ROW   RowContracts   icontract postconditions on the real create_trajectory_row (module global looked up at call time)
M-PU    GlobalsGuard   snapshot / restore of process globals the library owns
"""
import contextlib
import math
import warnings

import py_ballisticcalc as pb
from py_ballisticcalc import PreferredUnits
from py_ballisticcalc.conditions import Atmo
from py_ballisticcalc.trajectory_calc import _trajectory_calc as tcmod
import py_ballisticcalc.trajectory_calc as tcpkg

from vf import build


class StepBudgetExceeded(BaseException):
    """Raised from inside the integration loop when the step budget of the bounded-termination property is spent."""


# ----------------------------------------------------------------------------- M-STEP
class StepTrace:
    """Records (t, x, y, z, vx, vy, vz, c, flag_after, produced_row) for every point the filter sees."""

    def __init__(self, keep=True):
        self.points = []
        self.calls = 0
        self.keep = keep
        self._orig = None

    def __enter__(self):
        flt = tcmod._TrajectoryDataFilter  # pylint: disable=protected-access
        self._orig = flt.should_record
        orig, me = self._orig, self

        def should_record(self_, position, velocity, mach, time, *more, **kw):     # tolerant of added optional arguments
            data = orig(self_, position, velocity, mach, time, *more, **kw)
            if build.IN_DECOY:
                return data
            me.calls += 1
            if me.keep:
                me.points.append((time, position.x, position.y, position.z, velocity.x, velocity.y, velocity.z, mach,
                                  int(self_.current_flag), data is not None))
            return data

        flt.should_record = should_record
        return self

    def __exit__(self, *exc):
        tcmod._TrajectoryDataFilter.should_record = self._orig  # pylint: disable=protected-access
        return False


# ----------------------------------------------------------------------------- M-ATMO
class StepCounter:
    def __init__(self, budget=None):
        self.steps = 0
        self.budget = budget
        self.alt_min, self.alt_max = math.inf, -math.inf
        self._orig = None

    def __enter__(self):
        self._orig = Atmo.get_density_factor_and_mach_for_altitude
        orig, me = self._orig, self

        def counted(self_, altitude, *more, **kw):
            if build.IN_DECOY:
                return orig(self_, altitude, *more, **kw)
            me.steps += 1
            if altitude < me.alt_min:
                me.alt_min = altitude
            if altitude > me.alt_max:
                me.alt_max = altitude
            if me.budget is not None and me.steps > me.budget:
                raise StepBudgetExceeded(me.steps)
            return orig(self_, altitude, *more, **kw)

        Atmo.get_density_factor_and_mach_for_altitude = counted
        return self

    def __exit__(self, *exc):
        Atmo.get_density_factor_and_mach_for_altitude = self._orig
        return False


# ----------------------------------------------------------------------------- M-ROW
class RowContractBroken(Exception):
    pass


class RowContracts:
    """Postconditions on create_trajectory_row.  Conditions record (name, detail, args) into .broken and return True so
    that one broken row does not mask the rest; .evaluations counts condition evaluations (0 => inconclusive)."""

    def __init__(self, conditions):
        """conditions: [(name, fn(args: dict, result) -> None | str)]"""
        self.conditions = conditions
        self.evaluations = 0
        self.rows = 0
        self.broken = []
        self.rows_by_flag = {}
        self.backend = None
        self._orig = None
        self._orig_pkg = None

    def _wrap(self, orig):
        me = self
        names = ("time", "range_vector", "velocity_vector", "velocity", "mach", "spin_drift", "look_angle",
                 "density_factor", "drag", "weight", "flag")
        try:
            import icontract  # pylint: disable=import-outside-toplevel
        except ImportError:
            icontract = None

        def evaluate(args, result):
            if build.IN_DECOY:
                return
            me.rows += 1
            me.rows_by_flag[int(args["flag"])] = me.rows_by_flag.get(int(args["flag"]), 0) + 1
            for name, fn in me.conditions:
                me.evaluations += 1
                detail = fn(args, result)
                if detail:
                    me.broken.append((name, detail, {k: (tuple(v) if isinstance(v, tuple) else v) for k, v in args.items()}))

        if icontract is not None:
            me.backend = "icontract"

            def row_conditions_hold(time, range_vector, velocity_vector, velocity, mach, spin_drift, look_angle,
                                    density_factor, drag, weight, flag, result):
                evaluate(dict(zip(names, (time, range_vector, velocity_vector, velocity, mach, spin_drift, look_angle,
                                          density_factor, drag, weight, flag))), result)
                return True

            return icontract.ensure(row_conditions_hold, error=RowContractBroken)(orig)
        me.backend = "fallback-decorator"

        def wrapped(*a, **kw):
            result = orig(*a, **kw)
            args = dict(zip(names, a))
            args.update(kw)
            evaluate(args, result)
            return result
        return wrapped

    def __enter__(self):
        self._orig = tcmod.create_trajectory_row
        self._orig_pkg = tcpkg.create_trajectory_row
        w = self._wrap(self._orig)
        tcmod.create_trajectory_row = w          # looked up as a module global by _integrate at call time
        return self

    def __exit__(self, *exc):
        tcmod.create_trajectory_row = self._orig
        return False


# ----------------------------------------------------------------------------- M-PU
SLOTS = ("angular", "distance", "velocity", "pressure", "temperature", "diameter", "length", "weight", "adjustment",
         "drop", "energy", "ogw", "sight_height", "target_height", "twist")


def global_max_step_ft():
    """The global maximum step in feet, read through the public getter (the private float it is kept in may be renamed)."""
    from py_ballisticcalc import Distance  # pylint: disable=import-outside-toplevel
    return pb.get_global_max_calc_step_size() >> Distance.Foot


def globals_snapshot():
    """Process-wide state of the library that no argument carries: the documented globals and, found by walking the loaded
    modules, every module-level datum and every class-level data attribute of the package (a change of any of them by a
    computation or a construction is state shared behind the caller's back)."""
    import sys  # pylint: disable=import-outside-toplevel
    import types  # pylint: disable=import-outside-toplevel
    from vf.snapshot import snap  # pylint: disable=import-outside-toplevel
    data = (int, float, str, bool, type(None), list, tuple, dict, set, frozenset, pb.unit.AbstractDimension, pb.Unit)
    walked = {}
    for name, mod in sorted(sys.modules.items()):
        if not (name == "py_ballisticcalc" or name.startswith("py_ballisticcalc.")) or mod is None:
            continue
        for k, v in sorted(vars(mod).items()):
            if k.startswith("__"):
                continue
            if isinstance(v, type):
                if v.__module__ != name:
                    continue
                for ck, cv in sorted(vars(v).items()):
                    if ck.startswith("__") or callable(cv) or isinstance(cv, (property, staticmethod, classmethod, types.MemberDescriptorType,
                                                                               types.GetSetDescriptorType)):
                        continue
                    if isinstance(cv, data):
                        walked[f"{name}.{k}.{ck}"] = snap(cv)
            elif isinstance(v, data) and not isinstance(v, types.ModuleType):
                walked[f"{name}.{k}"] = snap(v)
    return {"preferred": {s: getattr(PreferredUnits, s) for s in SLOTS},
            "max_step": global_max_step_ft(),
            "powder": getattr(tcpkg, "_globalUsePowderSensitivity", None),
            "walked": walked}


@contextlib.contextmanager
def quiet():
    with warnings.catch_warnings():
        warnings.simplefilter("ignore")
        yield


def reset_all():
    build._WARM.clear()  # pylint: disable=protected-access
    if pb.get_debug():
        pb.set_debug(False)
    PreferredUnits.defaults()
    pb.reset_globals()


# ----------------------------------------------------------------------------- M-SCHED
class YieldInjector:
    """sys.monitoring LINE tool restricted to files of the repository: at random statement starts inside the library the
    running thread gives up the GIL (time.sleep(0)).  Per-thread state only (merged by the caller after join); a thread
    switch is *observed* when a line event runs in a different thread than the previous line event."""
    TOOL = 4

    def __init__(self, repo_root, probability=0.002, seed=0):
        import sys
        import threading
        self.sys, self.threading = sys, threading
        self.root = repo_root.rstrip("/") + "/"
        self.p = probability
        self.seed = seed
        self.local = threading.local()
        self.per_thread = []            # list of per-thread dicts, appended under a lock at first use
        self.lock = threading.Lock()
        self.last_thread = None

    def _state(self):
        st = getattr(self.local, "st", None)
        if st is None:
            import random
            st = {"rng": random.Random(hash((self.seed, self.threading.get_ident())) & 0xFFFFFFFF), "lines": 0, "yields": 0,
                  "switch_sites": set(), "yield_sites": set()}
            self.local.st = st
            with self.lock:
                self.per_thread.append(st)
        return st

    def __enter__(self):
        import time
        mon = self.sys.monitoring
        mon.use_tool_id(self.TOOL, "vf-sched")
        root, me, sleep, get_ident = self.root, self, time.sleep, self.threading.get_ident

        def on_line(code, line):
            fn = code.co_filename
            if not fn.startswith(root):
                return mon.DISABLE
            st = me._state()
            st["lines"] += 1
            tid = get_ident()
            if me.last_thread != tid:
                if me.last_thread is not None:
                    st["switch_sites"].add((fn[len(root):], line))
                me.last_thread = tid
            if st["rng"].random() < me.p:
                st["yields"] += 1
                st["yield_sites"].add((fn[len(root):], line))
                sleep(0)
            return None

        mon.register_callback(self.TOOL, mon.events.LINE, on_line)
        mon.set_events(self.TOOL, mon.events.LINE)
        return self

    def __exit__(self, *exc):
        mon = self.sys.monitoring
        mon.set_events(self.TOOL, 0)
        mon.register_callback(self.TOOL, mon.events.LINE, None)
        mon.free_tool_id(self.TOOL)
        return False

    def summary(self):
        sw, ys = set(), set()
        lines = yields = 0
        for st in self.per_thread:
            sw |= st["switch_sites"]
            ys |= st["yield_sites"]
            lines += st["lines"]
            yields += st["yields"]
        return {"line_events": lines, "yields_injected": yields, "distinct_switch_sites": len(sw), "distinct_yield_sites": len(ys),
                "threads_seen": len(self.per_thread), "sample_switch_sites": sorted(sw)[:8]}
